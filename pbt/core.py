"""Shared machinery: context, counters, bucketing, evidence, replay, known findings.

A *case* is a JSON value.  Each property module exposes

    PROP, RULE, ASSUMPTIONS, TECHNIQUE
    check_case(ctx, case)      -> None, reports through ctx.violation(...)
    run(ctx)                   -> drives check_case through ctx.drive / ctx.enumerate

ctx.check(case) wraps check_case: any exception escaping check_case itself (i.e. not
caught by ctx.call around a call into csep) is a *harness* error (exit 2), never a
violation.
"""
import hashlib
import json
import math
import os
import sys
import time
import traceback

ROOT = os.path.dirname(os.path.dirname(os.path.abspath(__file__)))
REPO = os.path.abspath(os.environ.get("VERIF_REPO", "/repo"))


class HarnessError(Exception):
    pass


# process time zones a case may ask for ("tz" key, handled by Ctx.check): POSIX TZ strings, no zone files needed
TZS = [None, None, None, "AAA-05:30", "PST8PDT,M3.2.0,M11.1.0", "BBB12", "CCC-13"]


def draw_tz(draw, case):
    """last draw of a case strategy: optionally run the case under a non-UTC process time zone"""
    from hypothesis import strategies as st
    tz = draw(st.sampled_from(TZS))
    if tz:
        case["tz"] = tz
    return case


class workdir:
    """Scratch directory for the files of one case.  Unlike tempfile.TemporaryDirectory its path is the SAME for every case of a
    process (/tmp/verif_work_<pid>): file names recur from case to case with different contents, as a user's 'forecast.csv'
    does, so anything the library remembers per file name shows up.  Emptied on entry and removed on exit."""

    def __enter__(self):
        import shutil
        import tempfile
        self.path = os.path.join(tempfile.gettempdir(), "verif_work_%d" % os.getpid())
        shutil.rmtree(self.path, ignore_errors=True)
        os.makedirs(self.path)
        return self.path

    def __exit__(self, *exc):
        import shutil
        shutil.rmtree(self.path, ignore_errors=True)
        return False


ABORTED = [None]   # set by the wall-clock guard: every further check fails fast with a HarnessError


class Outcome:
    """Result of calling into the code under test."""
    __slots__ = ("ok", "value", "exc", "where")

    def __init__(self, ok, value=None, exc=None, where=None):
        self.ok = ok
        self.value = value
        self.exc = exc
        self.where = where

    @property
    def exc_name(self):
        return type(self.exc).__name__ if self.exc is not None else None

    def __repr__(self):
        if self.ok:
            return "Ok(%r)" % (self.value,)
        return "Raised(%s: %s @ %s)" % (self.exc_name, self.exc, self.where)


def _innermost_repo_frame(tb):
    where = None
    for fs in traceback.extract_tb(tb):
        fn = os.path.abspath(fs.filename)
        if fn.startswith(REPO + os.sep):
            where = "%s:%s" % (os.path.relpath(fn, REPO), fs.name)
    return where


def _crashed_while_reporting(tb):
    """'file:function' if the innermost harness frame (pbt/props/*.py) of the traceback sits inside a multi-line
    ctx.violation(...) / ctx.unexpected(...) statement, else None"""
    import linecache
    frame = None
    for fs in traceback.extract_tb(tb):
        if os.sep + os.path.join("pbt", "props") + os.sep in os.path.abspath(fs.filename):
            frame = fs
    if frame is None:
        return None
    for back in range(0, 8):
        ln = frame.lineno - back
        if ln < 1:
            break
        text = linecache.getline(frame.filename, ln)
        if ".violation(" in text or ".unexpected(" in text:
            return "%s:%s" % (os.path.basename(frame.filename), frame.name)
        if back and text.rstrip().endswith(":"):
            break       # left the statement (a block header above)
    return None


def call(fn, *a, **k):
    """Call into the code under test; never lets its exceptions escape."""
    try:
        return Outcome(True, fn(*a, **k))
    except HarnessError:
        raise
    except Exception as e:  # noqa: BLE001 - the whole point
        return Outcome(False, exc=e, where=_innermost_repo_frame(e.__traceback__))


def jsonable(x):
    """Best-effort conversion for details (not for cases, which must be JSON already)."""
    import numpy
    if isinstance(x, dict):
        return {str(k): jsonable(v) for k, v in x.items()}
    if isinstance(x, (list, tuple)):
        return [jsonable(v) for v in x]
    if isinstance(x, numpy.ndarray):
        return jsonable(x.tolist())
    if isinstance(x, (numpy.integer,)):
        return int(x)
    if isinstance(x, (numpy.floating, float)):
        x = float(x)
        if math.isnan(x) or math.isinf(x):
            return repr(x)
        return x
    if isinstance(x, (numpy.bool_,)):
        return bool(x)
    if isinstance(x, bytes):
        return x.decode("latin-1")
    if x is None or isinstance(x, (int, str, bool)):
        return x
    return repr(x)


def canon(case):
    return json.dumps(case, sort_keys=True, separators=(",", ":"), allow_nan=True)


class Ctx:
    SAMPLE_LIMIT = 6
    SAMPLE_BYTES = 6000

    def __init__(self, prop, tier, seed, shard=0, nshards=1, module=None):
        self.prop = prop
        self.tier = tier
        self.seed = seed
        self.shard = shard
        self.nshards = nshards
        self.module = module
        self.evaluations = 0
        self.nontrivial = set()
        self.counters = {}
        self.samples = []
        self._sample_labels = {}
        self.violations = {}  # bucket -> dict(count, case, detail, size)
        self.notes = []
        self.exhaustive = {}
        self.t0 = time.time()
        self._current = None  # (case, source)

    # ------------------------------------------------------------------ sizes
    def n(self, quick, thorough):
        return quick if self.tier == "quick" else thorough

    def hseed(self, salt=0):
        return (self.seed * 1000 + self.shard) * 101 + salt

    # --------------------------------------------------------------- counters
    def count(self, name, n=1):
        self.counters[name] = self.counters.get(name, 0) + n

    def note(self, text):
        if text not in self.notes:
            self.notes.append(text)

    def record(self, case, nontrivial, label="case"):
        self.evaluations += 1
        self.count("class:" + label)
        if nontrivial:
            s = canon(case)
            h = hashlib.sha1(s.encode()).digest()[:10]
            if h not in self.nontrivial:
                self.nontrivial.add(h)
                k = self._sample_labels.get(label, 0)
                if k < 2 and len(self.samples) < self.SAMPLE_LIMIT and len(s) <= self.SAMPLE_BYTES:
                    self._sample_labels[label] = k + 1
                    self.samples.append({"label": label, "case": case})

    # ------------------------------------------------------------- violations
    def violation(self, kind, detail=None, case=None):
        """Report an oracle mismatch or unexpected exception for the current case."""
        if case is None:
            case = self._current
        elif isinstance(case, dict) and isinstance(self._current, dict) and self._current.get("tz") and "tz" not in case:
            case = dict(case, tz=self._current["tz"])      # minimal cases inherit the process time zone they ran under
        if isinstance(self._current, dict) and self._current.get("tz") and isinstance(detail, dict):
            detail = dict(detail, process_tz=self._current["tz"])
        s = canon(case)
        v = self.violations.get(kind)
        if v is None:
            self.violations[kind] = {"count": 1, "case": case, "detail": jsonable(detail), "size": len(s)}
        else:
            v["count"] += 1
            if len(s) < v["size"]:
                v.update(case=case, detail=jsonable(detail), size=len(s))
        self._hit.add(kind)

    def unexpected(self, outcome, what, case=None):
        """An exception where the property demands a result."""
        kind = "exception:%s:%s:%s" % (what, outcome.exc_name, outcome.where)
        self.violation(kind, {"exception": repr(outcome.exc)}, case)

    def normalize(self, what, thunk, case=None):
        """Convert a value returned by the code under test into plain Python inside the harness.  The conversions never fail on
        the unchanged tree; a result of the wrong type / shape (None where a number is promised, a ragged array ...) is the
        code's doing and is reported as a violation, not as a harness error.  Returns None then."""
        try:
            return thunk()
        except HarnessError:
            raise
        except (TypeError, ValueError, AttributeError, IndexError, KeyError, OverflowError) as e:
            self.violation("malformed_result:" + what, {"error": repr(e)[:300]}, case)
            return None

    # ------------------------------------------------------------------ check
    _hit = set()

    def check(self, case, fn=None):
        """Run check_case on one case; returns the set of violation kinds it produced."""
        fn = fn or self.module.check_case
        if ABORTED[0]:
            raise HarnessError(ABORTED[0])
        self._current = case
        self._hit = set()
        if isinstance(case, dict) and case.get("child_env") and not os.environ.get("VERIF_IN_CHILD"):
            return self._check_in_child(case)
        tz = case.get("tz") if isinstance(case, dict) else None
        old_tz = os.environ.get("TZ")
        if tz:
            # the case asks for a process time zone (POSIX TZ string): results are defined in UTC and must not depend on it
            os.environ["TZ"] = tz
            time.tzset()
            self.count("cases_under_non_utc_process_tz")
        try:
            fn(self, case)
        except HarnessError:
            raise
        except Exception as e:  # harness bug: never a violation ...
            where = _crashed_while_reporting(e.__traceback__)
            if where is None:
                raise HarnessError("check_case crashed on %s\n%s" % (canon(case)[:2000], traceback.format_exc())) from e
            # ... unless the crash happened while the arguments of a ctx.violation(...) call were being put together: the
            # oracle had already decided; only the description of the mismatch could not be formatted
            self.violation("violation_with_unprintable_detail:" + where, {"error": repr(e)[:300]}, case)
        finally:
            self._current = None
            if tz:
                if old_tz is None:
                    os.environ.pop("TZ", None)
                else:
                    os.environ["TZ"] = old_tz
                time.tzset()
        return self._hit

    def _check_in_child(self, case):
        """A case that asks for a process environment which can only be set at interpreter start (locale, PYTHONUTF8, ...):
        replayed in a child interpreter with that environment; its VIOLATION lines are absorbed here."""
        import subprocess
        import tempfile
        env = dict(os.environ)
        env.update({k: str(v) for k, v in case["child_env"].items()})
        env["VERIF_IN_CHILD"] = "1"
        env["VERIF_NO_EVIDENCE"] = "1"
        fd, path = tempfile.mkstemp(prefix="verif_child_", suffix=".json")
        try:
            with os.fdopen(fd, "w") as f:
                json.dump({"property": self.prop, "case": case}, f)
            r = subprocess.run([sys.executable, os.path.join(ROOT, "pbt", "run.py"), self.prop, "--replay", path],
                               capture_output=True, text=True, env=env, cwd=ROOT, timeout=600)
        finally:
            try:
                os.remove(path)
            except OSError:
                pass
            self._current = None
        self.count("cases_replayed_in_a_child_interpreter")
        self.record({"child_env": case["child_env"], "case_keys": sorted(k for k in case if k != "child_env")}, True, "child_interpreter")
        if r.returncode not in (0, 1):
            raise HarnessError("child interpreter failed on %s\n%s" % (canon(case)[:1000], (r.stdout + r.stderr)[-2000:]))
        hit = set()
        for line in r.stdout.splitlines():
            if line.startswith("VIOLATION ") or line.startswith("KNOWN-FINDING"):
                b = line.split("bucket=", 1)[1].split(" ", 1)[0] if "bucket=" in line else line.split("key=", 1)[1].split(" ", 1)[0]
                detail = line.split("detail=", 1)[1] if "detail=" in line else None
                self._current = case
                self.violation(b, {"child_env": case["child_env"], "child_detail": (detail or "")[:400]}, case)
                self._current = None
                hit.add(b)
        return hit

    # ------------------------------------------------------------- hypothesis
    def drive(self, strategy, max_examples, fn=None, salt=0, label=None):
        """Collect phase: run `max_examples` generated cases, never stopping at a failure."""
        import hypothesis
        from hypothesis import HealthCheck, Phase, given, settings
        fn = fn or self.module.check_case
        before = set(self.violations)
        tag = label or getattr(fn, "__name__", "drive")

        @hypothesis.seed(self.hseed(salt))
        @settings(max_examples=max_examples, database=None, deadline=None, derandomize=False,
                  report_multiple_bugs=False, phases=[Phase.generate],
                  suppress_health_check=list(HealthCheck))
        @given(strategy)
        def t(case):
            self.check(case, fn)

        t()
        new = set(self.violations) - before
        for b in new:
            self.violations[b]["source"] = (strategy, fn, salt, max_examples)
        self.count("driver:" + tag, 0)

    def shrink(self, bucket, budget=400):
        """Shrink phase for one bucket found by drive(): Hypothesis search narrowed to it."""
        import hypothesis
        from hypothesis import HealthCheck, Phase, given, settings
        v = self.violations[bucket]
        src = v.get("source")
        if not src:
            return
        strategy, fn, salt, n = src
        quiet = Ctx(self.prop, self.tier, self.seed, self.shard, self.nshards, self.module)
        last = {}

        class Found(Exception):
            pass

        @hypothesis.seed(self.hseed(salt))
        @settings(max_examples=max(n, 50), database=None, deadline=None, derandomize=False,
                  report_multiple_bugs=False, phases=[Phase.generate, Phase.shrink],
                  suppress_health_check=list(HealthCheck))
        @given(strategy)
        def t(case):
            hit = quiet.check(case, fn)
            if bucket in hit:
                last["case"] = case
                last["detail"] = quiet.violations[bucket]["detail"]
                raise Found()

        try:
            t()
        except Found:
            pass
        except Exception:  # flaky etc.: keep the collected case
            return
        if "case" in last and len(canon(last["case"])) <= v["size"]:
            # re-evaluate to get the detail that belongs to the minimal case
            q2 = Ctx(self.prop, self.tier, self.seed, self.shard, self.nshards, self.module)
            if bucket in q2.check(last["case"], fn):
                v.update(case=last["case"], detail=q2.violations[bucket]["detail"], size=len(canon(last["case"])))

    # ------------------------------------------------------------------ merge
    def export(self):
        viol = {}
        for b, v in self.violations.items():
            viol[b] = {k: v[k] for k in ("count", "case", "detail", "size")}
        return dict(evaluations=self.evaluations, nontrivial=self.nontrivial, counters=self.counters,
                    samples=self.samples, violations=viol, notes=self.notes, exhaustive=self.exhaustive)

    def absorb(self, d):
        self.evaluations += d["evaluations"]
        self.nontrivial |= d["nontrivial"]
        for k, n in d["counters"].items():
            self.counters[k] = self.counters.get(k, 0) + n
        for s in d["samples"]:
            if len(self.samples) < self.SAMPLE_LIMIT:
                self.samples.append(s)
        for b, v in d["violations"].items():
            w = self.violations.get(b)
            if w is None:
                self.violations[b] = dict(v)
            else:
                w["count"] += v["count"]
                if v["size"] < w["size"]:
                    w.update(case=v["case"], detail=v["detail"], size=v["size"])
        for t in d["notes"]:
            self.note(t)
        for k, val in d["exhaustive"].items():
            self.exhaustive[k] = self.exhaustive.get(k, True) and val


# ------------------------------------------------------------------ known findings
def load_known(prop):
    """Returns ({key: text} for 'finding:' lines of this property, [fixed lines])."""
    path = os.path.join(ROOT, "known_findings.txt")
    found, fixed = {}, []
    if not os.path.exists(path):
        return found, fixed
    for line in open(path):
        line = line.strip()
        if not line or line.startswith("#"):
            continue
        if line.startswith("finding:"):
            toks = line.split()
            d = dict(t.split("=", 1) for t in toks[1:3] if "=" in t)
            if d.get("property") == prop and "key" in d:
                found[d["key"]] = line.split(None, 3)[3] if len(toks) > 3 else ""
        elif line.startswith("fixed:"):
            if ("property=%s " % prop) in line:
                fixed.append(line)
    return found, fixed


def write_json(path, obj):
    os.makedirs(os.path.dirname(path), exist_ok=True)
    tmp = path + ".tmp%d" % os.getpid()
    with open(tmp, "w") as f:
        json.dump(obj, f, indent=1, sort_keys=True, allow_nan=False, default=jsonable)
        f.write("\n")
    os.replace(tmp, path)
