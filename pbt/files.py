"""Reference encoders: writers for the file formats the library reads (written from the format descriptions)."""
import csv
import datetime as D
import io

EPOCH = D.datetime(1970, 1, 1)


def ms_to_iso(ms, sep="T", frac="auto"):
    """ISO time string of integer epoch milliseconds. frac: 'auto' (omit when whole second), 'us' (6 digits), 'ms' (3 digits)"""
    dt = EPOCH + D.timedelta(milliseconds=ms)
    base = dt.strftime("%Y-%m-%d" + sep + "%H:%M:%S")
    # strftime pads years < 1000 inconsistently across platforms; years here are >= 1900
    if frac == "auto":
        return base if ms % 1000 == 0 else base + ".%06d" % dt.microsecond
    if frac == "ms":
        return base + ".%03d" % (dt.microsecond // 1000)
    return base + ".%06d" % dt.microsecond


def csep_csv_rows(events, catalog_id, frac="auto"):
    """events: list of (id, origin_ms, lat, lon, depth, mag) -> rows lon,lat,mag,time_string,depth,catalog_id,event_id"""
    return [[repr(float(e[3])), repr(float(e[2])), repr(float(e[5])), ms_to_iso(e[1], frac=frac), repr(float(e[4])),
             "" if catalog_id is None else str(catalog_id), str(e[0])] for e in events]


def write_csep_csv(path, events, catalog_id=0, header=True, frac="auto"):
    with open(path, "w", newline="") as f:
        w = csv.writer(f, delimiter=",")
        if header:
            w.writerow(["lon", "lat", "mag", "time_string", "depth", "catalog_id", "event_id"])
        for r in csep_csv_rows(events, catalog_id, frac):
            w.writerow(r)


def write_catalog_forecast(path, catalogs, encoding, header=False, frac="auto"):
    """catalogs: list (index = catalog id) of event lists; encoding[i] in {'placeholder','omit'} for empty catalogs
    (the final id is always written). Rows: lon,lat,mag,time_string,depth,catalog_id,event_id; placeholder: ,,,,,id,"""
    n = len(catalogs)
    with open(path, "w", newline="") as f:
        w = csv.writer(f, delimiter=",")
        if header:
            w.writerow(["lon", "lat", "mag", "time_string", "depth", "catalog_id", "event_id"])
        for i, evs in enumerate(catalogs):
            if evs:
                for r in csep_csv_rows(evs, i, frac):
                    w.writerow(r)
            elif i == n - 1 or encoding[i] == "placeholder":
                w.writerow(["", "", "", "", "", str(i), ""])
