"""Reference encoders: writers for the file formats the library reads (written from the format descriptions)."""
import csv
import datetime as D
import io

EPOCH = D.datetime(1970, 1, 1)


def ms_to_iso(ms, sep="T", frac="auto"):
    """ISO time string of integer epoch milliseconds. frac: 'auto' (omit when whole second), 'us' (6 digits), 'ms' (3 digits),
    'short' (as few fraction digits as represent the milliseconds exactly: .5, .25, .125; none for a whole second)"""
    dt = EPOCH + D.timedelta(milliseconds=ms)
    base = dt.strftime("%Y-%m-%d" + sep + "%H:%M:%S")
    # strftime pads years < 1000 inconsistently across platforms; years here are >= 1900
    if frac == "auto":
        return base if ms % 1000 == 0 else base + ".%06d" % dt.microsecond
    if frac == "ms":
        return base + ".%03d" % (dt.microsecond // 1000)
    if frac == "short":
        digits = ("%03d" % (dt.microsecond // 1000)).rstrip("0")
        return base + ("." + digits if digits else "")
    return base + ".%06d" % dt.microsecond


def csep_csv_rows(events, catalog_id, frac="auto"):
    """events: list of (id, origin_ms, lat, lon, depth, mag) -> rows lon,lat,mag,time_string,depth,catalog_id,event_id"""
    return [[repr(float(e[3])), repr(float(e[2])), repr(float(e[5])), ms_to_iso(e[1], frac=frac), repr(float(e[4])),
             "" if catalog_id is None else str(catalog_id), str(e[0])] for e in events]


def write_csep_csv(path, events, catalog_id=0, header=True, frac="auto", eol="\r\n", blank_ids=False):
    """blank_ids: leave the optional event_id column empty (the reader then numbers the events itself)"""
    with open(path, "w", newline="") as f:
        w = csv.writer(f, delimiter=",", lineterminator=eol)
        if header:
            w.writerow(["lon", "lat", "mag", "time_string", "depth", "catalog_id", "event_id"])
        for r in csep_csv_rows(events, catalog_id, frac):
            if blank_ids:
                r[6] = ""
            w.writerow(r)


def write_catalog_forecast(path, catalogs, encoding, header=False, frac="auto", eol="\r\n", final_newline=True):
    """catalogs: list (index = catalog id) of event lists; encoding[i] in {'placeholder','omit'} for empty catalogs
    (the final id is always written). Rows: lon,lat,mag,time_string,depth,catalog_id,event_id; placeholder: ,,,,,id,"""
    n = len(catalogs)
    buf = io.StringIO()
    w = csv.writer(buf, delimiter=",", lineterminator=eol)
    if header:
        w.writerow(["lon", "lat", "mag", "time_string", "depth", "catalog_id", "event_id"])
    for i, evs in enumerate(catalogs):
        if evs:
            for r in csep_csv_rows(evs, i, frac):
                w.writerow(r)
        elif i == n - 1 or encoding[i] == "placeholder":
            w.writerow(["", "", "", "", "", str(i), ""])
    text = buf.getvalue()
    if not final_newline and text.endswith(eol):
        text = text[:-len(eol)]
    with open(path, "w", newline="") as f:
        f.write(text)


# ------------------------------------------------------------------ ZMAP (CSEP1 ascii): whitespace separated numeric columns
def write_zmap(path, recs, ncols=13):
    """recs: dicts with lon, lat, year, month, day, mag, depth, hour, minute, second (ints for the calendar fields).
    columns: lon lat decimal-year month day mag depth hour minute second [h-err d-err m-err]"""
    import calendar
    with open(path, "w") as f:
        for r in recs:
            doy = sum(calendar.monthrange(r["year"], m)[1] for m in range(1, r["month"])) + r["day"] - 1
            ndays = 366 if calendar.isleap(r["year"]) else 365
            decyear = r["year"] + (doy + (r["hour"] + (r["minute"] + r["second"] / 60.0) / 60.0) / 24.0) / ndays
            cols = ["%.4f" % r["lon"], "%.4f" % r["lat"], "%.10f" % decyear, "%d" % r["month"], "%d" % r["day"], "%.2f" % r["mag"],
                    "%.2f" % r["depth"], "%d" % r["hour"], "%d" % r["minute"], "%d" % r["second"], "1.0", "2.0", "0.1"]
            f.write(" ".join(cols[:ncols]) + "\n")


# ------------------------------------------------------------------ JMA csv
def write_jma(path, recs, header=True):
    """recs: dicts with local datetime fields + offset minutes; 'timestamp;longitude;latitude;depth;magnitude'"""
    with open(path, "w", newline="") as f:
        if header:
            f.write("timestamp;longitude;latitude;depth;magnitude\n")
        for r in recs:
            f.write("%s;%s;%s;%s;%s\n" % (r["stamp"], repr(r["lon"]), repr(r["lat"]), repr(r["depth"]), repr(r["mag"])))


# ------------------------------------------------------------------ INGV HORUS (tab separated, one header line)
def write_horus(path, recs):
    with open(path, "w") as f:
        f.write("Year\tMo\tDa\tHo\tMi\tSe\tLat\tLon\tDepth\tMw\tsigMw\tGeo-Ita\tGeo-CPTI15\t\n")
        for r in recs:
            vals = [r["year"], r["month"], r["day"], r["hour"], r["minute"], r["second"], r["lat"], r["lon"], r["depth"], r["mag"], 0.2]
            f.write("\t".join("%20.10f" % v for v in vals) + "\t*\t*\t\n")


# ------------------------------------------------------------------ NDK (five 80-column lines per event)
def ndk_record(r):
    l1 = "%-4s %04d/%02d/%02d %02d:%02d:%04.1f %6.2f %7.2f %5.1f %3.1f %3.1f %-24s" % (
        r.get("hypo_cat", "PDEW"), r["year"], r["month"], r["day"], r["hour"], r["minute"], r["second"], r["lat"], r["lon"], r["depth"], 5.5, 5.8,
        "GENERATED EVENT")
    l2 = "%-16s B: 88  166  40 S: 96  189  50 M: 41   52 125 CMT: %d %s:%5.1f" % (r["name"], r.get("cmt_type", 1), r.get("mr_type", "TRIHD"), 1.8)
    # the centroid differs from the hypocentre (the catalog location is the hypocentre of line 1)
    clat = max(-89.0, min(89.0, r["lat"] * 0.5 + 1.25))
    clon = max(-179.0, min(179.0, r["lon"] * 0.5 - 2.5))
    l3 = "CENTROID: %8.1f%4.1f%7.2f%5.2f%8.2f%5.2f%6.1f%5.1f %-4s %s" % (5.3, 0.1, clat, 0.01, clon, 0.01, r["depth"] + 3.0, 0.4, r.get("depth_type", "FREE"), r.get("stamp", "S-20060726112355"))
    l4 = "%2d" % r["exp"] + "".join(" %6.3f %5.3f" % (v, 0.05) for v in (4.18, -1.7, -2.48, -1.05, -2.41, -2.28))
    l5 = "V10" + "".join(" %7.3f %2d %3d" % a for a in ((4.975, 73, 100), (0.120, 8, 216), (-5.095, 15, 308))) + " " + "%7.3f" % r["moment"] + \
         " %3d %2d %4d %3d %2d %4d" % (49, 30, 106, 211, 61, 81)
    return [l1, l2, l3, l4, l5]


def write_ndk(path, recs, trailing_newline=True):
    lines = []
    for r in recs:
        lines += ndk_record(r)
    with open(path, "w") as f:
        f.write("\n".join(lines) + ("\n" if trailing_newline else ""))


# ------------------------------------------------------------------ gridded forecasts
def write_gridded_ascii(path, rows, swap_latlon=False):
    """rows: (lon0, lon1, lat0, lat1, mag0, mag1, rate, flag) -> 'lon0 lon1 lat0 lat1 z0 z1 mag0 mag1 rate flag' (floats by repr)"""
    with open(path, "w") as f:
        for lon0, lon1, lat0, lat1, m0, m1, rate, flag in rows:
            a = (lat0, lat1, lon0, lon1) if swap_latlon else (lon0, lon1, lat0, lat1)
            f.write(" ".join(repr(float(v)) for v in a + (0.0, 30.0, m0, m1, rate)) + " %d\n" % flag)


def write_quadtree_ascii(path, rows):
    """rows: (quadkey, lon0, lon1, lat0, lat1, mag0, mag1, rate) -> 'qk lon0 lon1 lat0 lat1 z0 z1 mag0 mag1 rate'"""
    with open(path, "w") as f:
        for qk, lon0, lon1, lat0, lat1, m0, m1, rate in rows:
            f.write(qk + " " + " ".join(repr(float(v)) for v in (lon0, lon1, lat0, lat1, 0.0, 30.0, m0, m1, rate)) + "\n")


def write_quadtree_csv(path, keys, mags, rates):
    """header 'quadkey,depth_min,depth_max,m0,m1,...' then one row per tile"""
    with open(path, "w") as f:
        f.write(",".join(["quadkey", "depth_min", "depth_max"] + [repr(float(m)) for m in mags]) + "\n")
        for k, row in zip(keys, rates):
            f.write(",".join([k, "0.0", "30.0"] + [repr(float(r)) for r in row]) + "\n")
