#!/venv/bin/python
"""setup_cmd: make sure hypothesis is importable by /venv/bin/python, offline."""
import os
import subprocess
import sys

ROOT = os.path.dirname(os.path.dirname(os.path.abspath(__file__)))
DEPS = os.path.join(ROOT, ".deps")
try:
    import hypothesis
    print("hypothesis", hypothesis.__version__, "already importable")
except ImportError:
    subprocess.check_call([sys.executable, "-m", "pip", "install", "-q", "--no-index", "--find-links",
                           "/opt/veriftools/wheels", "--target", DEPS, "hypothesis"])
    print("hypothesis installed into", DEPS)
for d in ("evidence", "replays"):
    os.makedirs(os.path.join(ROOT, d), exist_ok=True)
