#!/venv/bin/python
"""Coverage-guided add-on (thorough tier of C12 and C19): libFuzzer (atheris) mutates the byte stream that Hypothesis
turns into a *structured* case (hypothesis.fuzz_one_input), so coverage feedback from the instrumented parsers
(csep.core.catalogs, csep.utils.readers, csep.utils.time_utils) steers the same generator and the same oracle.

  fuzz_atheris.py <C12|C19> --runs N --seed S --out DIR

Writes DIR/result.json {"runs": n, "nontrivial": k, "violations": {bucket: {...}}} (rewritten every 500 executions and
on every new bucket, because libFuzzer ends the process itself)."""
import argparse
import json
import os
import sys

HERE = os.path.dirname(os.path.abspath(__file__))
ROOT = os.path.dirname(HERE)


def main():
    ap = argparse.ArgumentParser()
    ap.add_argument("prop")
    ap.add_argument("--runs", type=int, default=5000)
    ap.add_argument("--seed", type=int, default=1)
    ap.add_argument("--out", required=True)
    a = ap.parse_args()
    repo = os.path.abspath(os.environ.get("VERIF_REPO", "/repo"))
    sys.dont_write_bytecode = True
    for p in (os.path.join(ROOT, ".deps"), ROOT, repo):
        sys.path.insert(0, p)
    import warnings
    warnings.filterwarnings("ignore")
    import atheris
    with atheris.instrument_imports(include=["csep.core.catalogs", "csep.utils.readers", "csep.utils.time_utils"]):
        import csep  # noqa: F401
    assert os.path.abspath(csep.__file__).startswith(repo + os.sep)
    import importlib
    from hypothesis import HealthCheck, given, settings, strategies as st
    from pbt import core
    mod = importlib.import_module("pbt.props.%s" % a.prop.lower())
    ctx = core.Ctx(a.prop.upper(), "thorough", a.seed, module=mod)
    strat = mod.fuzz_strategy(ctx)
    state = {"n": 0}
    os.makedirs(a.out, exist_ok=True)
    devnull = open(os.devnull, "w")

    def dump():
        viol = {b: {"count": v["count"], "case": v["case"], "detail": v["detail"]} for b, v in ctx.violations.items()}
        tmp = os.path.join(a.out, "result.json.tmp")
        with open(tmp, "w") as f:
            json.dump({"runs": state["n"], "nontrivial": len(ctx.nontrivial), "violations": viol,
                       "classes": ctx.counters}, f, default=core.jsonable)
        os.replace(tmp, os.path.join(a.out, "result.json"))

    @settings(database=None, deadline=None, suppress_health_check=list(HealthCheck))
    @given(strat)
    def test(case):
        import contextlib
        nb = len(ctx.violations)
        with contextlib.redirect_stdout(devnull):
            ctx.check(case)
        ctx.record(case if len(str(case)) < 3000 else {"large": True}, mod.nontrivial(case), "atheris")
        state["n"] += 1
        if len(ctx.violations) != nb or state["n"] % 500 == 0:
            dump()

    corpus = os.path.join(a.out, "corpus")
    os.makedirs(corpus, exist_ok=True)
    atheris.Setup([sys.argv[0], "-runs=%d" % a.runs, "-seed=%d" % (a.seed or 1), "-max_len=4096", "-print_final_stats=0", "-verbosity=0", corpus],
                  test.hypothesis.fuzz_one_input)
    dump()
    atheris.Fuzz()


if __name__ == "__main__":
    main()
