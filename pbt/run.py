#!/venv/bin/python
"""CLI:  run.py <Cxx> [--tier quick|thorough] [--replay FILE] [--shards N]

exit 0  property held on everything explored (KNOWN-FINDING lines allowed)
exit 1  + "VIOLATION property=<id> replay=<path>" for every unlisted violation bucket
exit 2  harness error (never a violation)
"""
import argparse
import importlib
import json
import os
import sys
import time
import traceback

HERE = os.path.dirname(os.path.abspath(__file__))
ROOT = os.path.dirname(HERE)
DEPS = os.path.join(ROOT, ".deps")
WHEELS = "/opt/veriftools/wheels"


def _bootstrap():
    """Deterministic hashing, repo first on sys.path, hypothesis importable."""
    if os.environ.get("PYTHONHASHSEED") != "0":
        os.environ["PYTHONHASHSEED"] = "0"
        os.execv(sys.executable, [sys.executable] + sys.argv)
    sys.dont_write_bytecode = True
    repo = os.path.abspath(os.environ.get("VERIF_REPO", "/repo"))
    os.environ["VERIF_REPO"] = repo
    if repo != "/repo":
        # runs against a scratch copy (mutants, seeded changes, older trees) never touch the committed evidence
        os.environ["VERIF_NO_EVIDENCE"] = "1"
    os.environ.setdefault("SCECCODE_PYCSEP_VERIF", "1")
    os.environ.setdefault("MPLBACKEND", "Agg")
    for p in (ROOT, repo):
        if p in sys.path:
            sys.path.remove(p)
    sys.path.insert(0, ROOT)
    sys.path.insert(0, repo)
    try:
        import hypothesis  # noqa: F401
    except ImportError:
        if os.path.isdir(DEPS) and DEPS not in sys.path:
            sys.path.append(DEPS)
        try:
            import hypothesis  # noqa: F401
        except ImportError:
            import subprocess
            subprocess.check_call([sys.executable, "-m", "pip", "install", "-q", "--no-index",
                                   "--find-links", WHEELS, "--target", DEPS, "hypothesis"])
            sys.path.append(DEPS)
            import hypothesis  # noqa: F401
    import warnings
    warnings.filterwarnings("ignore")
    import csep
    if not os.path.abspath(csep.__file__).startswith(repo + os.sep):
        raise SystemExit("HARNESS: csep imported from %s, not from %s" % (csep.__file__, repo))
    return repo


def _shard(args):
    prop, tier, seed, shard, nshards = args
    from pbt import core
    import warnings
    warnings.filterwarnings("ignore")
    mod = importlib.import_module("pbt.props.%s" % prop.lower())
    ctx = core.Ctx(prop, tier, seed, shard, nshards, mod)
    import contextlib
    with contextlib.redirect_stdout(open(os.devnull, "w")):   # the library prints progress / warnings
        return _shard_body(ctx, mod, prop, tier, shard)


def _shard_body(ctx, mod, prop, tier, shard):
    from pbt import core
    # watchdog: a hang is a harness-level "inconclusive" (exit 2), never a violation
    import signal

    def _alarm(signum, frame):
        # Hypothesis re-runs a case whose execution raised; keep interrupting (and make every later check fail fast)
        core.ABORTED[0] = "shard %d exceeded its wall-clock guard while working on %s" % (shard, core.canon(ctx._current)[:1500])
        signal.alarm(2)
        raise core.HarnessError(core.ABORTED[0])
    signal.signal(signal.SIGALRM, _alarm)
    signal.alarm(int(os.environ.get("VERIF_SHARD_GUARD_S", "900" if tier == "quick" else "14400")))
    try:
        mod.run(ctx)
        # shrink unlisted buckets inside the shard that found them (thorough tier only)
        if tier == "thorough":
            known, _ = core.load_known(prop)
            for b in list(ctx.violations)[:4]:
                if b not in known:
                    ctx.shrink(b)
    except core.HarnessError as e:
        return {"harness_error": str(e)}
    except Exception:
        return {"harness_error": traceback.format_exc()}
    finally:
        signal.alarm(0)
    return ctx.export()


def _atheris_addon(prop, seed, total, core):
    import subprocess
    import tempfile
    try:
        sys.path.insert(0, DEPS)
        import atheris  # noqa: F401
    except ImportError:
        try:
            subprocess.check_call([sys.executable, "-m", "pip", "install", "-q", "--no-index", "--find-links", WHEELS, "--target", DEPS, "atheris"])
        except Exception as e:
            return {"available": False, "reason": "atheris not installable offline: %s" % e}
    finally:
        if DEPS in sys.path:
            sys.path.remove(DEPS)
    nproc, runs = 8, int(os.environ.get("VERIF_ATHERIS_RUNS", "20000"))
    info = {"available": True, "processes": nproc, "libfuzzer_runs_each": runs, "structured_cases_executed": 0, "nontrivial": 0, "violation_buckets": []}
    with tempfile.TemporaryDirectory() as d:
        procs = []
        for i in range(nproc):
            out = os.path.join(d, "p%d" % i)
            procs.append((out, subprocess.Popen([sys.executable, os.path.join(HERE, "fuzz_atheris.py"), prop, "--runs", str(runs),
                                                 "--seed", str(seed * 100 + i + 1), "--out", out],
                                                stdout=subprocess.DEVNULL, stderr=subprocess.DEVNULL)))
        for out, p in procs:
            try:
                p.wait(timeout=3600)
            except subprocess.TimeoutExpired:
                p.kill()
                info["note"] = "a fuzz process hit the 1h budget (inconclusive for the remainder)"
            rp = os.path.join(out, "result.json")
            if not os.path.exists(rp):
                info.setdefault("failed_processes", 0)
                info["failed_processes"] += 1
                continue
            r = json.load(open(rp))
            info["structured_cases_executed"] += r["runs"]
            info["nontrivial"] += r["nontrivial"]
            total.evaluations += r["runs"]
            for b, v in r["violations"].items():
                w = total.violations.get(b)
                size = len(core.canon(v["case"]))
                if w is None:
                    total.violations[b] = {"count": v["count"], "case": v["case"], "detail": v["detail"], "size": size}
                else:
                    w["count"] += v["count"]
                info["violation_buckets"].append(b)
    return info


def main():
    repo = _bootstrap()
    from pbt import core
    ap = argparse.ArgumentParser()
    ap.add_argument("prop")
    ap.add_argument("--tier", default=os.environ.get("VERIF_TIER", "quick"), choices=["quick", "thorough"])
    ap.add_argument("--replay")
    ap.add_argument("--shards", type=int)
    a = ap.parse_args()
    prop = a.prop.upper()
    seed = int(os.environ.get("VERIF_SEED", "1") or "1")
    t0 = time.time()
    try:
        mod = importlib.import_module("pbt.props.%s" % prop.lower())
    except Exception:
        traceback.print_exc()
        print("HARNESS-ERROR property=%s cannot import property module" % prop)
        return 2
    known, fixed = core.load_known(prop)

    # ------------------------------------------------------------------ replay
    if a.replay:
        doc = json.load(open(a.replay))
        ctx = core.Ctx(prop, a.tier, seed, module=mod)
        try:
            import contextlib
            with contextlib.redirect_stdout(open(os.devnull, "w")):
                hit = ctx.check(doc["case"])
        except core.HarnessError as e:
            print("HARNESS-ERROR property=%s %s" % (prop, e))
            return 2
        bad = [b for b in hit if b not in known]
        for b in hit:
            if b in known:
                print("KNOWN-FINDING: property=%s key=%s %s" % (prop, b, known[b]))
        for b in bad:
            print("VIOLATION property=%s replay=%s bucket=%s detail=%s" % (
                prop, a.replay, b, json.dumps(ctx.violations[b]["detail"], default=str)[:600]))
        if not hit:
            print("replay: no violation on %s" % a.replay)
        return 1 if bad else 0

    # --------------------------------------------------------------------- run
    nshards = a.shards or getattr(mod, "SHARDS", {}).get(a.tier, 8 if a.tier == "quick" else 16)
    total = core.Ctx(prop, a.tier, seed, module=mod)
    harness = []

    # 1. regression replays (minimal cases of fixed defects and earlier violations)
    rdir = os.path.join(ROOT, "regress", prop)
    nreg = 0
    # the replays run in this process: guard them against a hang as the shards are guarded
    import signal

    def _alarm(signum, frame):
        raise core.HarnessError("regression replays exceeded the wall-clock guard")
    signal.signal(signal.SIGALRM, _alarm)
    signal.alarm(int(os.environ.get("VERIF_SHARD_GUARD_S", "900")))
    if os.path.isdir(rdir):
        for fn in sorted(os.listdir(rdir)):
            if fn.endswith(".json"):
                doc = json.load(open(os.path.join(rdir, fn)))
                try:
                    import contextlib
                    with contextlib.redirect_stdout(open(os.devnull, "w")):
                        total.check(doc["case"])
                    total.evaluations += 1
                    nreg += 1
                except core.HarnessError as e:
                    harness.append("regress/%s/%s: %s" % (prop, fn, e))
    signal.alarm(0)
    total.count("regression_replays", nreg)

    # 2. generated search, sharded
    jobs = [(prop, a.tier, seed, i, nshards) for i in range(nshards)]
    if nshards == 1:
        results = [_shard(jobs[0])]
    else:
        import multiprocessing as mp
        with mp.get_context("fork").Pool(min(nshards, os.cpu_count() or 1)) as pool:
            results = pool.map(_shard, jobs, chunksize=1)
    for r in results:
        if "harness_error" in r:
            harness.append(r["harness_error"])
        else:
            total.absorb(r)

    # 2b. coverage-guided add-on (thorough tier, modules that expose fuzz_strategy): atheris drives the same
    #     structured generator and oracle through hypothesis.fuzz_one_input; fresh corpus, -seed from VERIF_SEED
    fuzz_info = None
    if a.tier == "thorough" and hasattr(mod, "fuzz_strategy") and not os.environ.get("VERIF_NO_ATHERIS"):
        fuzz_info = _atheris_addon(prop, seed, total, core)

    if harness:
        for h in harness[:3]:
            print("HARNESS-ERROR property=%s\n%s" % (prop, h))
        return 2

    # 3. classify buckets
    unlisted = [b for b in total.violations if b not in known]
    listed = [b for b in total.violations if b in known]
    for b in listed:
        print("KNOWN-FINDING: property=%s key=%s count=%d %s" % (prop, b, total.violations[b]["count"], known[b]))
    rc = 0
    rep_dir = os.path.join(ROOT, "replays", prop)
    for i, b in enumerate(sorted(unlisted)):
        v = total.violations[b]
        if os.environ.get("VERIF_NO_EVIDENCE"):
            rep_dir = os.path.join("/tmp", "verif_replays_%s" % os.path.basename(os.environ.get("VERIF_REPO", "repo").rstrip("/")), prop)
        os.makedirs(rep_dir, exist_ok=True)
        safe = "".join(c if c.isalnum() else "_" for c in b)[:80]
        path = os.path.join(rep_dir, "%s.json" % safe)
        with open(path, "w") as f:
            json.dump({"property": prop, "bucket": b, "detail": v["detail"], "case": v["case"],
                       "seed": seed, "tier": a.tier}, f, indent=1, default=core.jsonable)
        print("VIOLATION property=%s replay=%s bucket=%s count=%d detail=%s" % (
            prop, os.path.relpath(path, ROOT), b, v["count"], json.dumps(v["detail"], default=str)[:600]))
        rc = 1

    # 4. evidence
    wall = time.time() - t0
    cov = {
        "evaluations": total.evaluations,
        "distinct_nontrivial": len(total.nontrivial),
        "rule": mod.RULE,
        "samples": core.jsonable(total.samples) or [],
        "classes": {k: v for k, v in sorted(total.counters.items())},
        "shards": nshards,
        "exhaustive": bool(total.exhaustive) and all(total.exhaustive.values()),
        "exhaustive_parts": sorted(total.exhaustive),
        "violation_buckets": {b: total.violations[b]["count"] for b in total.violations},
        "known_finding_buckets": listed,
        "notes": total.notes,
        "fixed_defects_replayed": fixed,
        "technique": getattr(mod, "TECHNIQUE", ""),
    }
    if fuzz_info is not None:
        cov["atheris_addon"] = fuzz_info
    ev = {"property_id": prop, "tier": a.tier, "seed": seed, "level": "exploration", "coverage": cov,
          "assumptions": list(getattr(mod, "ASSUMPTIONS", [])), "wall_s": round(wall, 2),
          "violations": len(unlisted)}
    if not os.environ.get("VERIF_NO_EVIDENCE"):
        core.write_json(os.path.join(ROOT, "evidence", "%s.json" % prop), ev)
    print("%s tier=%s seed=%d evaluations=%d nontrivial=%d buckets=%d known=%d wall=%.1fs" % (
        prop, a.tier, seed, total.evaluations, len(total.nontrivial), len(unlisted), len(listed), wall))
    return rc


if __name__ == "__main__":
    try:
        sys.exit(main())
    except SystemExit:
        raise
    except Exception:
        traceback.print_exc()
        print("HARNESS-ERROR unexpected")
        sys.exit(2)
