"""Independent Web-Mercator quadkey arithmetic (oracle side of C03/C11/C17)."""
import math
from fractions import Fraction


def tile_xyz(qk):
    x = y = 0
    for c in qk:
        d = int(c)
        x = 2 * x + (d & 1)
        y = 2 * y + (d >> 1)
    return x, y, len(qk)


def lat_of(y, z):
    """latitude of the horizontal tile line y (0 = north) at zoom z"""
    return math.degrees(math.atan(math.sinh(math.pi * (1 - 2 * y / 2**z))))


def bounds(qk):
    """(west, south, east, north); longitudes exact (dyadic), latitudes from the Mercator formula."""
    x, y, z = tile_xyz(qk)
    w = float(Fraction(x, 2**z) * 360 - 180)
    e = float(Fraction(x + 1, 2**z) * 360 - 180)
    return w, lat_of(y + 1, z), e, lat_of(y, z)


def merc_y(lat):
    """fractional global y in [0,1) (0 = north) of a latitude"""
    s = math.sin(math.radians(lat))
    return 0.5 - math.log((1 + s) / (1 - s)) / (4 * math.pi)


def children(qk):
    return [qk + c for c in "0123"]


def all_keys(z):
    ks = [""]
    for _ in range(z):
        ks = [k + c for k in ks for c in "0123"]
    return ks
