"""Exact-arithmetic oracles shared by C01/C02/C03/C11."""
import bisect
import math
from decimal import Decimal
from fractions import Fraction

import numpy

EPS64 = float(numpy.finfo(numpy.float64).eps)
EPS32 = float(numpy.finfo(numpy.float32).eps)


def frac(x):
    """Exact value of a float / int / decimal string."""
    if isinstance(x, str):
        if "/" in x:
            return Fraction(x)          # a rational such as "1/7"
        return Fraction(Decimal(x))
    return Fraction(x)


def fl(q):
    """Correctly rounded double of a Fraction."""
    return q.numerator / q.denominator


def ulp_step(x, n):
    x = float(x)
    for _ in range(abs(n)):
        x = math.nextafter(x, math.inf if n > 0 else -math.inf)
    return x


def decimal_grid(start, step, n):
    """[float(start + k*step) for k in range(n)] with exact decimal arithmetic (correctly rounded)."""
    s, h = frac(start), frac(step)
    return [fl(s + k * h) for k in range(n)]


def slack(v, k, edges, eps=EPS64):
    """Documented round-off tolerance below edge k: relative, of order eps, growing linearly with the bin index."""
    e1 = abs(edges[1]) if len(edges) > 1 else 0.0
    return 4.0 * eps * (k + 2) * (abs(edges[0]) + e1 + abs(v))


def true_bin(edges, v):
    """max{k: edges[k] <= v}, -1 if none (exact: float comparisons are exact)."""
    return bisect.bisect_right(edges, v) - 1


def admissible(edges, v, right_continuous, step=None, eps=EPS64, single_open=True):
    """Set of admissible answers of a lower-inclusive / upper-exclusive binning of v.

    edges: list of python floats (increasing).  step: exact width (Fraction) of the last bin for the closed mode.
    A value within slack immediately below an edge may go to either neighbour; a value at or above an edge may
    not go below it.
    """
    n = len(edges)
    if n == 1 and single_open:
        right_continuous = True  # pinned by tests.test_calc: single-edge grids are open-ended
    if math.isinf(v):
        return {n - 1} if (v > 0 and right_continuous) else {-1}
    k = true_bin(edges, v)
    allowed = {k}
    if k + 1 < n and edges[k + 1] - v <= slack(v, k + 1, edges, eps):
        allowed.add(k + 1)
    if right_continuous:
        return allowed
    # closed mode: the last bin ends at edges[-1] + step
    if step is None:
        step = Fraction(edges[1]) - Fraction(edges[0]) if n > 1 else Fraction(1)
    upper = Fraction(edges[-1]) + step
    s = Fraction(2 * slack(v, n, edges, eps))
    fv = Fraction(v)
    if fv >= upper + s:
        return {-1}
    if fv >= upper - s:
        return allowed | {-1}
    return allowed
