#!/bin/sh
# validates MANIFEST.json and every evidence file against the schemas (tooling venv has jsonschema)
python3-vt - <<'P'
import json, jsonschema, glob
jsonschema.validate(json.load(open('/verif/MANIFEST.json')), json.load(open('/root/.vp/MANIFEST.schema.json')))
s = json.load(open('/root/.vp/EVIDENCE.schema.json'))
for f in sorted(glob.glob('/verif/evidence/*.json')):
    jsonschema.validate(json.load(open(f)), s)
print('manifest + %d evidence files valid' % len(glob.glob('/verif/evidence/*.json')))
P
