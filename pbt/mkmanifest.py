#!/venv/bin/python
"""Regenerates MANIFEST.json from the property modules present under pbt/props."""
import importlib
import json
import os
import sys

ROOT = os.path.dirname(os.path.dirname(os.path.abspath(__file__)))
sys.path.insert(0, ROOT)
sys.path.insert(0, os.environ.get("VERIF_REPO", "/repo"))
PY = "/venv/bin/python"
BASELINE = json.load(open("/root/.vp/BASELINE.json"))["cmd"] if os.path.exists("/root/.vp/BASELINE.json") else \
    "cd /repo && /venv/bin/python -m pytest -ra -q -p no:cacheprovider --timeout=900 --continue-on-collection-errors"

props = [json.loads(l) for l in open(os.path.join(ROOT, "properties.jsonl"))]
checks, na = [], []
for p in props:
    pid = p["id"]
    path = os.path.join(ROOT, "pbt", "props", pid.lower() + ".py")
    if not os.path.exists(path):
        na.append({"property_id": pid, "reason": "check not built yet (planned in DESIGN.md section 4); not claimed"})
        continue
    m = importlib.import_module("pbt.props." + pid.lower())
    if getattr(m, "NOT_CLAIMED", None):
        na.append({"property_id": pid, "reason": m.NOT_CLAIMED})
        continue
    checks.append({
        "property_id": pid,
        "quick_cmd": "%s pbt/run.py %s --tier quick" % (PY, pid),
        "thorough_cmd": "%s pbt/run.py %s --tier thorough" % (PY, pid),
        "evidence_file": "evidence/%s.json" % pid,
        "replay_cmd_template": "%s pbt/run.py %s --replay {path}" % (PY, pid),
        "engine": "pbt",
        "level_claimed": {
            "category": "exploration",
            "text": getattr(m, "LEVEL_TEXT", "Exploration: generated-input search (Hypothesis strategies / state machine, bounded exhaustive enumeration "
                            "where the rule says so) against an oracle written independently of the implementation; a violation is shrunk to a "
                            "JSON replay file. Exit 0 means the property held on every generated case of this seed and tier - evidence of "
                            "absence of the failure classes the generator constructs on purpose (listed in the rule), not a proof. Sensitivity "
                            "of the check is demonstrated by mutants/ (deliberate breakages, all reported) and seeded/ (%d independent changes of this property written by sub-agents that saw only the property text, "
                            "all reported by the quick checks, see seeded/README.md). Rule: " % len(__import__("glob").glob(os.path.join(ROOT, "seeded", pid + "-*"))) + m.RULE),
            "design_ref": "DESIGN.md section 4, " + pid,
        },
        "level_note": "; ".join(getattr(m, "ASSUMPTIONS", [])) or "oracle and generator as described in DESIGN.md",
        "technique": m.TECHNIQUE,
    })

man = {
    "version": 1,
    "setup_cmd": "%s pbt/setup.py" % PY,
    "hooks": {
        "guard": "SCECCODE_PYCSEP_VERIF",
        "enable": "no source hooks exist; checks import csep from /repo's working tree (VERIF_REPO overrides) and set SCECCODE_PYCSEP_VERIF=1 for form only",
        "baseline_off_cmd": BASELINE.replace(" --junitxml=<file>", ""),
        "source_commits": [],
        "add_only": True,
    },
    "engines": [{
        "name": "pbt", "path": "pbt/run.py",
        "serves_properties": [c["property_id"] for c in checks],
        "kind_free_text": "Hypothesis 6.168 strategies / rule-based state machines + bounded exhaustive enumeration, "
                          "collect-then-shrink bucketing, JSON replay files; sharded over processes",
    }],
    "checks": checks,
    "not_applicable": na,
    "notes": "All checks: /venv/bin/python pbt/run.py <id> [--tier quick|thorough] [--replay file]; exit 2 = harness error. "
             "known_findings.txt lists recorded findings (finding: - one residual root cause, the inferred non-decimal grid spacing of C01/C11, see DESIGN.md 8.3) and repaired defects (fixed: - 27 commits in /repo, each with a "
             "minimal case under regress/ that every run replays first). Thorough tier: 16 shards, 10-50x the cases, larger bounds; C12/C19 add "
             "an atheris (libFuzzer) coverage-guided run over the same structured generator and oracle.",
}
with open(os.path.join(ROOT, "MANIFEST.json"), "w") as f:
    json.dump(man, f, indent=1)
    f.write("\n")
try:
    import jsonschema
    jsonschema.validate(man, json.load(open("/root/.vp/MANIFEST.schema.json")))
    print("MANIFEST valid; claimed:", [c["property_id"] for c in checks])
except ImportError:
    print("MANIFEST written (jsonschema not available); claimed:", [c["property_id"] for c in checks])
