#!/venv/bin/python
"""Runs the pinned test suite of /repo and compares with BASELINE.json's stable_pass list."""
import json, os, subprocess, sys, tempfile
import xml.etree.ElementTree as ET
b = json.load(open("/root/.vp/BASELINE.json"))
with tempfile.TemporaryDirectory() as d:
    x = os.path.join(d, "j.xml")
    cmd = b["cmd"].replace("<file>", x)
    r = subprocess.run(cmd, shell=True, capture_output=True, text=True)
    passed = set()
    for tc in ET.parse(x).getroot().iter("testcase"):
        if not any(c.tag in ("failure", "error", "skipped") for c in tc):
            passed.add("%s::%s" % (tc.get("classname"), tc.get("name")))
want = set(b["stable_pass"])
missing = sorted(want - passed)
print("stable_pass=%d passed_now=%d missing=%d extra=%d" % (len(want), len(passed), len(missing), len(passed - want)))
for m in missing:
    print("  NOT PASSING:", m)
for m in sorted(passed - want):
    print("  newly passing:", m)
sys.exit(1 if missing else 0)
