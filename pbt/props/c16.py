"""C16 - binary likelihood and Brier scores equal their definitions."""
import math

import numpy
from hypothesis import strategies as st

from pbt import gridded as G
from pbt.core import call

PROP = "C16"
TECHNIQUE = "Hypothesis-generated rate/count arrays and forecast/catalog pairs vs. independent definitions (expm1/log, math.fsum); metamorphic invariance under replacing positive counts by 1 or 7"
RULE = ("one case = rate array (1-D or 2-D, rates 1e-9..10, 0-20% zeros) x count array (0, 1, several per bin, all-zero; float64, int64, read-only, Fortran-ordered, strided) for the ndarray "
        "functions binary_joint_log_likelihood_ndarray / _brier_score_ndarray, and the same as forecast + catalog through binary_spatial_test, "
        "binary_conditional_likelihood_test, brier_score_test (1..3 simulations, injected numbers in bin interiors). Non-trivial = >= 1 bin "
        "with count >= 2 and >= 1 empty bin; cases with an event in a zero-rate bin are a separate counted class. distinct = canonical JSON.")
ASSUMPTIONS = ["binary tolerance sum_active 4*eps/min(lambda,1) + 1e-12*sum|terms|: the implementation evaluates log(1-exp(-lambda)) naively (error ~ eps/lambda)",
               "Brier tolerance 1e-12 absolute (values are O(1))",
               "binary S-test uses the unscaled spatial marginal rates (as implemented and as the property's 'rate' for that test)"]
SHARDS = {"quick": 8, "thorough": 16}


def classify_binary(got, rates, counts):
    """bucket for a binary-LL mismatch: recognise 'active zero-rate bins contribute 0 instead of -inf' exactly"""
    active_zero = any(w > 0 and lam <= 0 for lam, w in zip(rates, counts))
    if active_zero:
        r2 = [lam for lam, w in zip(rates, counts) if not (w > 0 and lam <= 0)]
        c2 = [w for lam, w in zip(rates, counts) if not (w > 0 and lam <= 0)]
        want2, tol2 = G.binary_ll(r2, c2)
        if G.close(got, want2, tol2):
            return "active_zero_rate_bin_contributes_0_not_minus_inf"
    return "mismatch"


def check_arrays(ctx, name, rates2d, counts2d, dtype="float"):
    from csep.core import binomial_evaluations as Bn, brier_evaluations as Br
    # dtype of the arrays handed over: float64, or integer arrays (whole expected counts)
    r = numpy.array(rates2d, dtype=float)
    c = numpy.array(counts2d, dtype=float)
    if dtype == "int":
        r = r.astype(numpy.int64)
        c = c.astype(numpy.int64)
        ctx.count("integer_dtype_arrays")
    r_f = numpy.array(rates2d, dtype=float)
    c_f = numpy.array(counts2d, dtype=float)
    if dtype in ("readonly", "fortran", "strided"):
        # the same float64 values as read-only arrays / in Fortran order / as a strided view into a larger array
        ctx.count("arrays_as:" + dtype)
        if dtype == "readonly":
            r.setflags(write=False)
            c.setflags(write=False)
        elif dtype == "fortran":
            r, c = numpy.asfortranarray(r), numpy.asfortranarray(c)
        else:
            def view(a):
                big = numpy.full(tuple(2 * k + 1 for k in a.shape), 0.123)
                sl = tuple(slice(1, None, 2) for _ in a.shape)
                big[sl] = a
                return big[sl]
            r, c = view(r), view(c)
    _check_arrays(ctx, name, r, c, r_f, c_f)
    # both functions read their arguments; the caller's arrays are as they were
    if not (numpy.array_equal(numpy.asarray(r, dtype=float), r_f) and numpy.array_equal(numpy.asarray(c, dtype=float), c_f)):
        ctx.violation(name + "callers_arrays_modified", {"shape": list(r_f.shape)})


def _check_arrays(ctx, name, r_in, c_in, r, c):
    from csep.core import binomial_evaluations as Bn, brier_evaluations as Br
    flat_r, flat_c = r.ravel().tolist(), c.ravel().tolist()
    want, tol = G.binary_ll(flat_r, flat_c)
    same_type = (lambda a: a.astype(numpy.asarray(c_in).dtype) if isinstance(c_in, numpy.ndarray) else a.tolist())
    for variant, cc in (("", c_in), (":counts->1", same_type((c > 0) * 1.0)), (":counts->7", same_type((c > 0) * 7.0))):
        o = call(Bn.binary_joint_log_likelihood_ndarray, r_in, cc)
        if not o.ok:
            ctx.unexpected(o, "binary_joint_log_likelihood_ndarray")
            continue
        got = float(o.value)
        if not G.close(got, want, tol):
            ctx.violation("%sbinary_ll:%s%s" % (name, classify_binary(got, flat_r, flat_c), variant if classify_binary(got, flat_r, flat_c) == "mismatch" else ""),
                          {"got": got, "want": want, "rates": flat_r[:8], "counts": flat_c[:8], "shape": list(r.shape)})
        o = call(Br._brier_score_ndarray, r_in, cc)
        wb = G.brier(flat_r, flat_c)
        if not o.ok:
            ctx.unexpected(o, "_brier_score_ndarray")
        elif not G.close(float(o.value), wb, 1e-12):
            ctx.violation("%sbrier:mismatch%s" % (name, variant), {"got": float(o.value), "want": wb, "shape": list(r.shape)})


def check_case(ctx, case):
    from csep.core import binomial_evaluations as Bn, brier_evaluations as Br
    if case["k"] == "arrays":
        shape = case["shape"]
        r = numpy.array(case["rates"], dtype=float).reshape(shape)
        c = numpy.array(case["counts"], dtype=float).reshape(shape)
        if any(w > 0 and lam <= 0 for lam, w in zip(case["rates"], case["counts"])):
            ctx.count("class:event_in_zero_rate_bin")
        return check_arrays(ctx, "", r, c, case.get("dtype", "float"))
    S = G.Setup(case)
    region = S.region()
    fore = S.forecast(region)
    w = S.counts()
    flat = S.rates.ravel().tolist()
    sp = S.rates.sum(axis=1).tolist()
    nsim = case["nsim"]
    act_cells = sorted(set(k for k, m in S.obs))
    act_bins = sorted(set(S.obs))
    if any(wv > 0 and lam <= 0 for lam, wv in zip(flat, w.ravel().tolist())):
        ctx.count("class:event_in_zero_rate_bin")
    from pbt.props.c06 import plan_draws, counts_of
    # second phase on the SAME forecast object after scale(x), x a power of two (weights scale exactly, normalised weights and
    # hence the planned draws are unchanged): scores must be those of the scaled rates
    phases = [(1.0, "")] + ([(float(case["rescale"]), ":after_scale")] if case.get("rescale") else [])
    for factor, tag in phases:
        if tag:
            osc = call(fore.scale, factor)
            if not osc.ok:
                ctx.unexpected(osc, "scale")
                break
            ctx.count("phase_after_scale")
        sp_f = [x * factor for x in sp]
        flat_f = [x * factor for x in flat]
        for name, fn, weights, counts, n_act, kind in (
                ("binary_S" + tag, Bn.binary_spatial_test, sp_f, w.sum(axis=1).tolist(), len(act_cells), "binary"),
                ("binary_CL" + tag, Bn.binary_conditional_likelihood_test, flat_f, w.ravel().tolist(), len(act_bins), "binary"),
                ("brier" + tag, Br.brier_score_test, flat_f, w.ravel().tolist(), len(act_bins), "brier")):
            # the first draw of a simulation is an interior one, 0.0 (first bin of positive rate, also behind leading zero-rate
            # bins) or 1 - 2^-53 (last bin of positive rate, also before trailing zero-rate bins)
            sims = [[[("in", "zero", "max")[(i + len(S.obs)) % 3], 0.37 + 0.1 * i, 0.5]] + [["in", 0.37 + 0.1 * i, 0.5]] * max(n_act - 1, 0) for i in range(nsim)]
            U, B = plan_draws(weights, sims, n_act, False, True) if n_act else ([[] for _ in range(nsim)], [[] for _ in range(nsim)])
            if U is None:
                ctx.count("skipped:unconstructible_draws:" + name)
                continue
            if case.get("np_divide_raise") and kind == "binary":
                # caller's numpy error state raises on log(0): the binary likelihood shields its own log(0) (an active zero-rate bin
                # gives -inf by definition, not an exception)
                with numpy.errstate(divide="raise"):
                    o = call(fn, fore, S.catalog(region), num_simulations=nsim, random_numbers=numpy.array(U, dtype=float).reshape(nsim, n_act))
                ctx.count("binary_tests_under_divide_raise")
            else:
                o = call(fn, fore, S.catalog(region), num_simulations=nsim, random_numbers=numpy.array(U, dtype=float).reshape(nsim, n_act))
            if not o.ok:
                ctx.unexpected(o, name)
                continue
            got = float(o.value.observed_statistic)
            if kind == "binary":
                want, tol = G.binary_ll(weights, counts)
                if not G.close(got, want, tol):
                    ctx.violation("%s:observed:%s" % (name, classify_binary(got, weights, counts)), {"got": got, "want": want})
            else:
                want = G.brier(weights, counts)
                if not G.close(got, want, 1e-12):
                    ctx.violation(name + ":observed:mismatch", {"got": got, "want": want})
            td = list(o.value.test_distribution)
            for i in range(min(nsim, len(td))):
                c = counts_of(B[i], len(weights))
                wv, tol = G.binary_ll(weights, c) if kind == "binary" else (G.brier(weights, c), 1e-12)
                if not G.close(float(td[i]), wv, tol):
                    ctx.violation(name + ":simulated:mismatch", {"got": float(td[i]), "want": wv})
                    break
            # injected numbers may put several events into one bin: the scores depend only on which bins are active
            if n_act >= 2 and U[0]:
                U2 = [[row[0]] + row[:-1] for row in U[:1]]          # first draw repeated: one bin holds two events, one active bin fewer
                o2 = call(fn, fore, S.catalog(region), num_simulations=1, random_numbers=numpy.array(U2, dtype=float).reshape(1, n_act))
                if not o2.ok:
                    ctx.unexpected(o2, name + ":duplicate_bin_draws")
                else:
                    c = counts_of([B[0][0]] + B[0][:-1], len(weights))
                    wv, tol = G.binary_ll(weights, c) if kind == "binary" else (G.brier(weights, c), 1e-12)
                    got2 = float(list(o2.value.test_distribution)[0])
                    if not G.close(got2, wv, tol):
                        ctx.violation(name + ":simulated:depends_on_event_count_not_activity", {"got": got2, "want": wv, "counts_max": max(c)})


def nontrivial(case):
    if case["k"] == "arrays":
        c = case["counts"]
    else:
        S = G.Setup(case)
        c = S.counts().ravel().tolist()
    return any(x >= 2 for x in c) and any(x == 0 for x in c)


@st.composite
def cases(draw):
    if draw(st.booleans()):
        nd = draw(st.sampled_from([1, 2, 2]))
        shape = [draw(st.integers(1, 12))] + ([draw(st.integers(1, 6))] if nd == 2 else [])
        n = int(numpy.prod(shape))
        rates = draw(G.rate_arrays(n, lo=-9, hi=1))
        zf = draw(st.sampled_from([0.0, 0.5, 0.9, 1.0]))
        counts = [0 if draw(st.floats(0, 1)) < zf else draw(st.sampled_from([1, 1, 2, 3, 17])) for _ in range(n)]
        if draw(st.integers(0, 7)) == 0:
            # many active bins with tiny rates: the likelihood is a sum of ~1e2 logs of ~1e-9 (a product would underflow)
            shape = [draw(st.integers(40, 120)), draw(st.integers(1, 3))]
            n = int(numpy.prod(shape))
            rates = draw(G.rate_arrays(n, lo=-9, hi=-6))
            counts = [draw(st.sampled_from([1, 1, 2, 0])) for _ in range(n)]
        dt = draw(st.sampled_from(["float", "float", "float", "int", "readonly", "fortran", "strided"]))      # the docstrings say "Numpy Array": lists are not in the domain
        if dt == "int":
            rates = [float(draw(st.integers(0, 6))) for _ in range(n)]      # whole expected counts in an integer array
            if not any(rates):
                rates[0] = 1.0
        return {"k": "arrays", "shape": shape, "rates": rates, "counts": counts, **({"dtype": dt} if dt != "float" else {})}
    c = draw(G.setups(max_cells=12, max_mags=4, max_events=40, lo=-9, hi=1))
    c["k"] = "tests"
    c["nsim"] = draw(st.integers(1, 3))
    if draw(st.integers(0, 3)) == 0:
        c["np_divide_raise"] = True
    if draw(st.booleans()):
        c["rescale"] = draw(st.sampled_from([0.5, 2.0, 0.25, 8.0]))
    return c


def run(ctx):
    def fn(c, case):
        check_case(c, case)
        c.record(case, nontrivial(case), case["k"])

    ctx.drive(cases(), ctx.n(400, 4000), fn=fn, salt=1)
