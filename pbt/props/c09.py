"""C09 - empirical quantiles treat ties and out-of-range observations exactly."""
import itertools
from fractions import Fraction

import numpy
from hypothesis import strategies as st

from pbt.core import call

PROP = "C09"
TECHNIQUE = "bounded exhaustive enumeration of multisets + Hypothesis-sampled large tied samples vs. exact counting oracle"
RULE = ("exhaustive: every multiset of size 1..7 over a 6-letter alphabet x {int,float} letters x {list, ndarray; integers also as uint8 / uint64 / int16 arrays} "
        "x 13 query values (each letter, between letters, below, above); sampled: 10^2..10^4-element samples over "
        "small alphabets as list / tuple / ndarray (also read-only, big-endian, strided, unsigned and narrow integer dtypes), as drawn / "
        "pre-sorted / reverse-sorted, queried with Python numbers, numpy scalars or 0-d arrays; the caller's sample must be left unchanged. One case = (sample, dtype, container) with all its queries. Non-trivial = sample has a "
        "repeated value and is queried at that value; distinct = canonical JSON of the case.")
ASSUMPTIONS = ["sample is non-empty and finite (the property's domain)",
               "expected value is float(Fraction(count, n)); numpy's k/float(n) is correctly rounded, so equality is exact"]
SHARDS = {"quick": 4, "thorough": 16}

INT_LETTERS = [1, 2, 3, 4, 5, 6]
FLT_LETTERS = [-0.3, 0.1, 0.30000000000000004, 1.5, 2.2, 1e3]


def queries(letters):
    qs = [letters[0] - 1]
    for a, b in zip(letters, letters[1:]):
        qs += [a, (a + b) / 2]
    qs += [letters[-1], letters[-1] + 1]
    return qs


def check_case(ctx, case):
    from csep.utils import stats
    xs = case["x"]
    qs = case["q"]
    n = len(xs)
    if case.get("order") == "sorted":
        xs = sorted(xs)
    elif case.get("order") == "reversed":
        xs = sorted(xs, reverse=True)
    cont = case["container"]
    if cont == "list":
        data = list(xs)
    elif cont == "tuple":
        data = tuple(xs)
    else:
        data = numpy.array(xs, dtype=float if case["dtype"] == "float" else int)
        if case.get("np_dtype"):
            # the same whole numbers stored as another integer type (event counts are often unsigned / narrow): same values
            cast = data.astype(case["np_dtype"])
            if numpy.array_equal(cast.astype(object), data.astype(object)):
                data = cast
                ctx.count("np_dtype:" + case["np_dtype"])
        if cont == "readonly":
            data.setflags(write=False)
        elif cont == "bigendian":
            data = data.astype(data.dtype.newbyteorder(">"))
        elif cont == "strided":
            b = numpy.zeros(2 * n + 1, dtype=data.dtype)
            b[1::2] = data
            data = b[1::2]
    if cont != "ndarray" or case.get("order") or case.get("qtype"):
        ctx.count("representation:%s/%s/%s" % (cont, case.get("order", "as_is"), case.get("qtype", "python")))
    qwrap = {"np_scalar": lambda v: numpy.float64(v) if isinstance(v, float) else numpy.int64(v), "zero_d": lambda v: numpy.array(v)}.get(case.get("qtype"), lambda v: v)
    before = [x for x in xs]
    prev_ge, prev_le = None, None
    le_list = []
    for v in sorted(qs):
        ge = Fraction(sum(1 for x in xs if x >= v), n)
        le = Fraction(sum(1 for x in xs if x <= v), n)
        eq = Fraction(sum(1 for x in xs if x == v), n)
        o1 = call(stats.greater_equal_ecdf, data, qwrap(v))
        o2 = call(stats.less_equal_ecdf, data, qwrap(v))
        o3 = call(stats.get_quantiles, data, qwrap(v))
        ctx.count("queries")
        for o, name in ((o1, "greater_equal_ecdf"), (o2, "less_equal_ecdf"), (o3, "get_quantiles")):
            if not o.ok:
                ctx.unexpected(o, name)
        if ctx.normalize("ecdf_value", lambda: [float(o.value) for o in (o1, o2) if o.ok] + [float(t) for o in (o3,) if o.ok for t in o.value]) is None:
            continue
        if o1.ok and float(o1.value) != float(ge):
            ctx.violation("greater_equal_wrong", {"v": v, "got": o1.value, "want": str(ge)})
        if o2.ok and float(o2.value) != float(le):
            ctx.violation("less_equal_wrong", {"v": v, "got": o2.value, "want": str(le)})
        if o3.ok and (float(o3.value[0]) != float(ge) or float(o3.value[1]) != float(le)):
            ctx.violation("get_quantiles_wrong", {"v": v, "got": o3.value, "want": [str(ge), str(le)]})
        if o1.ok and o2.ok:
            # consequences stated in the property (on the returned values, not the oracle's)
            if abs(float(o1.value) + float(o2.value) - float(1 + eq)) > 1e-12:
                ctx.violation("sum_identity", {"v": v, "ge": o1.value, "le": o2.value, "eq": str(eq)})
            if prev_ge is not None and (float(o1.value) > prev_ge or float(o2.value) < prev_le):
                ctx.violation("not_monotone", {"v": v})
            prev_ge, prev_le = float(o1.value), float(o2.value)
        le_list.append(float(le))
    if ctx.normalize("sample_after_the_queries", lambda: [x for x in numpy.asarray(data).tolist()]) != before:
        ctx.violation("callers_sample_modified", {"n": n})       # the sample is an input; a query must leave it as it was
    vals = sorted(qs)
    ob = call(stats.binned_ecdf, data, vals)
    if not ob.ok:
        ctx.unexpected(ob, "binned_ecdf")
    elif ob.value is not None and ctx.normalize("binned_ecdf", lambda: [float(t) for t in ob.value[1]]) is None:
        pass
    elif ob.value is None or [float(t) for t in ob.value[1]] != le_list:
        ctx.violation("binned_ecdf_wrong", {"got": None if ob.value is None else ob.value[1], "want": le_list})


def nontrivial(case):
    xs = case["x"]
    return any(xs.count(v) >= 2 for v in case["q"])


def run(ctx):
    # ---- exhaustive part
    combos = []
    for dtype, letters in (("int", INT_LETTERS), ("float", FLT_LETTERS)):
        qs = queries(letters)
        for size in range(1, 8):
            for ms in itertools.combinations_with_replacement(range(6), size):
                for container in ("list", "ndarray") + (("uint8", "uint64", "int16") if dtype == "int" else ("float32_free",)):
                    combos.append((dtype, letters, qs, ms, container))
    for i, (dtype, letters, qs, ms, container) in enumerate(combos):
        if i % ctx.nshards != ctx.shard:
            continue
        # storage order must not matter: rotate the multiset deterministically
        xs = [letters[j] for j in ms]
        k = i % len(xs)
        xs = xs[k:] + xs[:k]
        case = {"x": xs, "q": qs, "dtype": dtype, "container": container}
        if container in ("uint8", "uint64", "int16"):
            case = {"x": xs, "q": qs, "dtype": dtype, "container": "ndarray", "np_dtype": container}
        elif container == "float32_free":
            continue
        ctx.check(case)
        ctx.record(case, nontrivial(case), "exhaustive")
    ctx.exhaustive["multisets<=7 over 6 letters x dtype x container (integers also as uint8 / uint64 / int16 arrays) x 13 queries"] = True

    # ---- sampled part: large samples, heavy ties
    def big(draw):
        dtype = draw(st.sampled_from(["int", "float"]))
        k = draw(st.integers(2, 12))
        huge = dtype == "int" and draw(st.integers(0, 4)) == 0
        if huge:
            # integers beyond 2**53: neighbouring values are different integers but the same double
            base = draw(st.sampled_from([2**53, 2**53 - 3, 2**60, -2**53, 2**62]))
            alpha = draw(st.lists(st.integers(base - 6, base + 6), min_size=k, max_size=k, unique=True))
        elif dtype == "int":
            alpha = draw(st.lists(st.integers(-50, 50), min_size=k, max_size=k, unique=True))
        else:
            alpha = draw(st.lists(st.floats(-1e6, 1e6, allow_nan=False, width=64), min_size=k, max_size=k, unique=True))
        n = draw(st.sampled_from([1, 2, 3, 10, 100, 1000, ctx.n(3000, 100000)]))
        if n <= 1000:
            idx = draw(st.lists(st.integers(0, k - 1), min_size=n, max_size=n))
        else:
            # large samples: draw the multiplicities, lay the values out in a fixed interleaved order
            w = draw(st.lists(st.integers(0, 1000), min_size=k, max_size=k))
            if not any(w):
                w[0] = 1
            tot = sum(w)
            cnt = [n * x // tot for x in w]
            cnt[max(range(k), key=lambda i: w[i])] += n - sum(cnt)
            idx = [i for i in range(k) for _ in range(cnt[i])]
            stride = 7919
            idx = [idx[(j * stride) % n] for j in range(n)] if n % stride else idx
        xs = [alpha[i] for i in idx]
        s = sorted(set(xs))
        qs = [s[0] - 1] + s + [s[-1] + 1] + ([] if huge else [(a + b) / 2 for a, b in zip(s, s[1:])])
        extra = [] if huge else draw(st.lists(st.floats(-1e6, 1e6, allow_nan=False), max_size=3))
        case = {"x": xs, "q": sorted(set(qs + extra))[:40], "dtype": dtype,
                "container": draw(st.sampled_from(["list", "ndarray", "ndarray", "tuple", "readonly", "bigendian", "strided"]))}
        order = draw(st.sampled_from([None, None, "sorted", "reversed"]))      # samples that arrive already ordered
        if order:
            case["order"] = order
        if dtype == "int" and not huge and case["container"] != "list" and case["container"] != "tuple" and draw(st.booleans()):
            case["np_dtype"] = draw(st.sampled_from(["uint8", "uint16", "uint32", "uint64", "int8", "int16", "int32"]))     # applied when every value fits
        qtype = draw(st.sampled_from([None, None, "np_scalar", "zero_d"]))
        if qtype and not huge:
            case["qtype"] = qtype
        return case

    def check_big(c, case):
        check_case(c, case)
        c.record({"n": len(case["x"]), "alphabet": sorted(set(case["x"])), "q": case["q"], "dtype": case["dtype"],
                  "container": case["container"], "np_dtype": case.get("np_dtype"), "order": case.get("order"), "qtype": case.get("qtype"), "head": case["x"][:20]}, nontrivial(case), "sampled")

    ctx.drive(st.composite(big)(), ctx.n(60, 400), fn=check_big)
