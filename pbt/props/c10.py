"""C10 - catalog-based consistency tests compute the documented statistics."""
import math
import os
import tempfile

import numpy
from hypothesis import strategies as st

from pbt import files, gridded as G
from pbt.core import call, workdir

PROP = "C10"
TECHNIQUE = "Hypothesis-generated catalog forecasts and observations vs. independent implementation of the statistics in docs/getting_started/theory.rst (Savran et al. 2020) and the Serafini et al. docstrings, from reference-gridded counts; explicit-signalling clauses checked as required outcomes"
RULE = ("one case = space-magnitude region (1..8 cells, 1..4 magnitude bins) x catalog forecast of J=1..12 synthetic catalogs (0..15 events "
        "each, at least one non-empty; in memory or streamed from a written file) x observed catalog by class (empty, single event, events "
        "only in sampled cells, >= 1 event in a never-sampled cell, all events in never-sampled cells, many per cell, or event for event a copy of one synthetic catalog - half of these with 22..160 events whose per-bin counts c satisfy c / N * N != c in doubles). Checked: number, "
        "spatial, magnitude, pseudo-likelihood, resampled-magnitude and MLL tests (statistic, distribution, status, quantiles), calibration "
        "test input. 1 case in 4 hands the magnitude tests an observation that another forecast's spatial / PL test rejected first (event outside the region). 1 case in 12 repeats its synthetic catalogs 10x/25x (up to 300 catalogs); 1 in 4 runs with verbose=True. Non-trivial = J >= 3 with an empty synthetic catalog and an observation of >= 2 events; distinct = canonical JSON.")
ASSUMPTIONS = ["mean rates = per-cell mean of the synthetic catalogs' gridded counts; spatial rate = its magnitude marginal (no area normalisation), N-bar = its total",
               "magnitude statistics use log10 as implemented (the documentation writes 'log' without base)",
               "MLL statistic = +2*log(L(merged)/(L(union)L(catalog))) as in the MLL_score docstring",
               "at least one synthetic event overall (N_U > 0); events sit at bin centres (gridding is C03's subject)",
               "relative tolerance 1e-9; quantiles recomputed from the returned distribution with the counting oracle of C09",
               "resampled-M / MLL distributions: length, finiteness and seed determinism only (random resamples)",
               "an observation that is a copy of a synthetic catalog has, in the S, PL and M tests, exactly that catalog's statistic (same function of the same gridded counts): bit-for-bit equality, so that the tie counts in both quantiles"]
SHARDS = {"quick": 8, "thorough": 16}
TOL = 1e-9


def rel(a, b):
    if a is None or b is None:
        return a is b
    a, b = float(a), float(b)
    if math.isnan(a) or math.isnan(b):
        return math.isnan(a) and math.isnan(b)
    if math.isinf(a) or math.isinf(b):
        return a == b
    return abs(a - b) <= TOL * max(1.0, abs(a), abs(b))


def quantiles(dist, v):
    n = len(dist)
    return (sum(1 for x in dist if x >= v) / n, sum(1 for x in dist if x <= v) / n)


def lmult(x, size, prob):
    return math.lgamma(size + 1) + math.fsum(xi * math.log(pi) - math.lgamma(xi + 1) for xi, pi in zip(x, prob))


def mll(union, cat):
    nu, nj = math.fsum(union), math.fsum(cat)
    um = [u + nu / nj for u in union]
    cm = [c + 1 for c in cat]
    mg = [a + b for a, b in zip(um, cm)]
    f = lambda x: lmult(x, math.fsum(x), [xi / math.fsum(x) for xi in x])
    return 2 * (f(mg) - f(um) - f(cm))


def compositions(n, bins):
    """all ways to put n events into the listed bins"""
    if len(bins) == 1:
        yield {bins[0]: n}
        return
    for k in range(n + 1):
        for rest in compositions(n - k, bins[1:]):
            d = dict(rest)
            d[bins[0]] = k
            yield d


def check_resample_validity(ctx, name, td, union, n_obs, stat):
    """The resampled tests draw, for every synthetic catalog, n_obs magnitudes from the union histogram.  Which ones is random,
    but every entry of the test distribution must be the statistic of SOME histogram of n_obs events supported on the magnitude
    bins the union catalog occupies (validity predicate over the output)."""
    support = [k for k in range(len(union)) if union[k] > 0]
    ncomb = math.comb(n_obs + len(support) - 1, len(support) - 1)
    if ncomb > 30000:
        ctx.count("skipped:resample_validity_too_many_histograms")
        return
    ach = []
    for comp in compositions(n_obs, support):
        h = [float(comp.get(k, 0)) for k in range(len(union))]
        ach.append(stat(h))
    ach.sort()
    import bisect
    ctx.count("resample_validity_checked:" + name)
    for x in td:
        i = bisect.bisect_left(ach, x)
        near = [ach[j] for j in (i - 1, i) if 0 <= j < len(ach)]
        if not any(rel(x, a) for a in near):
            ctx.violation(name + ":distribution_entry_not_a_resample_statistic", {"entry": x, "nearest": near, "n_obs": n_obs, "support": support})
            return


def check_case(ctx, case):
    from csep.core import catalog_evaluations as CE
    from csep.core.forecasts import CatalogForecast
    import csep
    S = G.Setup(case["setup"])
    SEED = numpy.int64(case["seed"]) if case.get("np_seed") else case["seed"]      # seeds are integers: Python int or numpy integer
    VB = bool(case.get("verbose"))     # progress output on: same results (stdout of a shard goes to devnull)
    if VB:
        ctx.count("cases_with_verbose_on")
    cats = [[tuple(e) for e in c] for c in case["cats"]] * case.get("repeat", 1)     # "repeat": many synthetic catalogs
    obs = [tuple(e) for e in case["obs"]]
    J = len(cats)
    cj = [S.counts(c) for c in cats]
    mean = sum(cj) / J
    sp = mean.sum(axis=1)
    nbar = float(mean.sum())
    sizes = [len(c) for c in cats]
    wobs = S.counts(obs)
    n_obs = len(obs)

    with workdir() as d:
        # "filtered_extra": every synthetic catalog also holds one event below the first magnitude edge and the forecast is configured
        # with the filter that removes it - on every pass, however many passes a test makes (a below-minimum event that slips through
        # cannot be gridded)
        FX = bool(case.get("filtered_extra"))
        fkw = {"filters": ["magnitude >= %r" % S.edges[0]], "apply_filters": True} if FX else {}
        if FX:
            ctx.count("forecasts_with_a_filter_that_removes_events")

        def below(ci):
            e = list(S.event(1000 + ci, 0, 0))
            e[0] = "below%d" % ci
            e[5] = S.edges[0] - S.hm / 2
            return tuple(e)

        def forecast():
            f = forecast_new()
            if case.get("empty_obs_first"):
                # the forecast object first met an EMPTY observation in the spatial, pseudo-likelihood and magnitude tests ('not-valid'
                # results / None; complete passes; not judged): the judged test that follows is answered as on a new object
                from csep.core.catalogs import CSEPCatalog
                for t in (CE.spatial_test, CE.pseudolikelihood_test, CE.magnitude_test):
                    try:
                        t(f, CSEPCatalog(data=[], region=f.region, name="empty"), verbose=False)
                    except Exception:  # noqa: BLE001
                        pass
            return f

        def forecast_new():
            region = S.region()
            if case["source"] == "list":
                from csep.core.catalogs import CSEPCatalog
                cs = [S.catalog(region, obs=c, name="c") for c in cats]
                if FX:
                    cs = [CSEPCatalog(data=[below(i)] + [S.event(j, k, m) for j, (k, m) in enumerate(c)], region=region, name="c") for i, c in enumerate(cats)]
                for i, c in enumerate(cs):
                    c.catalog_id = i
                return CatalogForecast(catalogs=cs, n_cat=J, region=region, start_time=G.T0, end_time=G.T1, name="cf", **fkw)
            p = os.path.join(d, "f.csv")
            if not os.path.exists(p):
                raw = [([below(ci)] if FX else []) + [S.event(i, k, m) for i, (k, m) in enumerate(c)] for ci, c in enumerate(cats)]
                files.write_catalog_forecast(p, raw, ["omit" if i % 2 else "placeholder" for i in range(J)], frac="us")
            return csep.load_catalog_forecast(p, region=region, start_time=G.T0, end_time=G.T1, name="cf", store=(case["source"] == "file_store"), **fkw)

        def observed():
            return S.catalog(S.region(), obs=obs)

        def observed_m():
            """for the magnitude tests: the observed catalog may hold events below the first magnitude edge (a catalog not cut at the
            forecast's minimum magnitude); they are in no magnitude bin, the tests work with the events that are"""
            if not ((case.get("obs_below_min") or case.get("obs_rejected_first")) and n_obs):
                return observed()
            from csep.core.catalogs import CSEPCatalog
            region = S.region()
            evs = [S.event(i, k, m) for i, (k, m) in enumerate(obs)]
            extra = []
            for q in range(1 + n_obs % 3):
                e = list(S.event(5000 + q, obs[0][0], 0))
                e[0] = "lowmag%d" % q
                e[5] = S.edges[0] - S.hm * (0.5 + q)
                extra.append(tuple(e))
            if not case.get("obs_rejected_first"):
                return CSEPCatalog(data=evs[:1] + extra + evs[1:], region=region, name="obs")
            # "obs_rejected_first": the catalog also holds a (below-minimum) event OUTSIDE the spatial region, and was first handed to
            # the spatial and pseudo-likelihood tests of ANOTHER forecast (same cells, another magnitude grid), which reject it - the
            # documented ValueError of the cell lookup.  The magnitude tests that follow do not look at locations: they must answer
            # as if those rejected requests had never been made.
            out = list(extra[0])
            out[0], out[2], out[3] = "outside", float(S.L.ey[0]) - 3.75, float(S.L.ex[0]) - 7.25
            cat = CSEPCatalog(data=evs[:1] + extra + [tuple(out)] + evs[1:], region=region, name="obs")
            try:
                other = S.L.build("from_origins", magnitudes=numpy.array([x + 0.4 * S.hm for x in S.edges]))
                fa = CatalogForecast(catalogs=[CSEPCatalog(data=[S.event(0, obs[0][0], 0)], region=other, name="c")], n_cat=1, region=other,
                                     start_time=G.T0, end_time=G.T1, name="other")
            except Exception:  # noqa: BLE001
                return cat
            for rejected in (CE.spatial_test, CE.pseudolikelihood_test):
                try:
                    rejected(fa, cat, verbose=False)
                except Exception:  # noqa: BLE001
                    ctx.count("rejected_requests_before_the_magnitude_tests")
            return cat

        # ---------------- expected rates
        o = call(lambda: forecast().get_expected_rates())
        if not o.ok:
            ctx.unexpected(o, "get_expected_rates")
            return
        if not numpy.allclose(numpy.asarray(o.value.data, dtype=float), mean, rtol=1e-12, atol=0):
            ctx.violation("expected_rates_not_mean_of_gridded_counts", None)
            return
        results = []
        all_results = []
        # ---------------- number test
        o = call(CE.number_test, forecast(), observed(), verbose=VB)
        if not o.ok:
            ctx.unexpected(o, "number_test")
        else:
            r = o.value
            results.append(r)
            all_results.append(r)
            nq = ctx.normalize("N", lambda: (list(r.test_distribution), tuple(float(x) for x in r.quantile)))
            if nq is None:
                pass
            elif list(r.test_distribution) != sizes or r.observed_statistic != n_obs:
                ctx.violation("N:distribution_or_statistic_wrong", {"td": list(r.test_distribution), "want": sizes})
            elif tuple(float(x) for x in r.quantile) != quantiles(sizes, n_obs):
                ctx.violation("N:quantile_wrong", {"got": list(r.quantile), "want": quantiles(sizes, n_obs)})
        # ---------------- number test again on ONE forecast object whose filter is switched on in between: the distribution is made
        # of the catalogs the forecast yields now (sizes counted above the second magnitude edge), not of remembered sizes
        if S.nm >= 2 and case["source"] != "file_store":
            fc = call(forecast)
            if fc.ok:
                o1 = call(CE.number_test, fc.value, observed(), verbose=VB)
                fc.value.filters = ["magnitude >= %r" % S.edges[1]]
                fc.value.apply_filters = True
                o2 = call(CE.number_test, fc.value, observed(), verbose=VB)
                sizes2 = [sum(1 for _, m in c if m >= 1) for c in cats]
                if o1.ok and o2.ok:
                    ctx.count("number_test_after_filter_change")
                    td2 = ctx.normalize("N:after_filter_change", lambda: list(o2.value.test_distribution))
                    if td2 is not None and td2 != sizes2:
                        ctx.violation("N:stale_sizes_after_filter_change", {"first": list(o1.value.test_distribution)[:10], "second": td2[:10], "want": sizes2[:10]})
                elif not o2.ok:
                    ctx.unexpected(o2, "number_test:after_filter_change")
        # ---------------- spatial / pseudo-likelihood
        tot = math.fsum(sp.tolist())

        def s_stat(w):
            ws = w.sum(axis=1) if w.ndim == 2 else w
            n = ws.sum()
            return math.fsum(ws[k] * math.log(sp[k] / tot) for k in range(S.nc) if ws[k] > 0) / n

        def pl_stat(w):
            ws = w.sum(axis=1) if w.ndim == 2 else w
            return math.fsum(ws[k] * math.log(sp[k]) for k in range(S.nc) if ws[k] > 0) - nbar

        ws_obs = wobs.sum(axis=1)
        under = any(ws_obs[k] > 0 and sp[k] == 0 for k in range(S.nc))
        kept = ws_obs * (sp > 0)
        for name, fn, stat, skip_empty in (("S", CE.spatial_test, s_stat, True), ("PL", CE.pseudolikelihood_test, pl_stat, False)):
            if case.get("np_divide_raise"):
                # the caller's numpy error state turns division by zero / log(0) into exceptions (numpy.seterr(divide='raise')):
                # these two tests shield their own log(0) and must still flag under-sampling instead of raising
                with numpy.errstate(divide="raise"):
                    o = call(fn, forecast(), observed(), verbose=VB)
                ctx.count("spatial_tests_under_divide_raise")
            else:
                o = call(fn, forecast(), observed(), verbose=VB)
            if not o.ok:
                ctx.unexpected(o, name + "_test" + (":numpy_divide_raise" if case.get("np_divide_raise") else ""))
                continue
            r = o.value
            if r is not None:
                all_results.append(r)
            if n_obs == 0 or (under and kept.sum() == 0):
                # explicit signalling: no numeric quantile
                if name == "PL":
                    if r is not None:
                        ctx.violation("PL:result_for_undefined_statistic", {"status": r.status, "stat": repr(r.observed_statistic)})
                else:
                    if r is None or r.status != "not-valid" or tuple(r.quantile) != (-1, -1):
                        ctx.violation("S:undefined_statistic_not_flagged_not_valid", {"status": getattr(r, "status", None), "quantile": repr(getattr(r, "quantile", None)),
                                                                                     "n_obs": n_obs, "undersampled": bool(under)})
                continue
            if r is None:
                ctx.violation(name + ":no_result_for_defined_statistic", {"n_obs": n_obs})
                continue
            results.append(r)
            want_dist = [stat(c) for c in cj if not (skip_empty and c.sum() == 0)]
            if ctx.normalize(name, lambda: ([float(x) for x in r.test_distribution], float(r.observed_statistic), tuple(float(x) for x in r.quantile))) is None:
                continue
            td = [float(x) for x in r.test_distribution]
            if len(td) != len(want_dist) or not all(rel(a, b) for a, b in zip(td, want_dist)):
                ctx.violation(name + ":test_distribution_wrong", {"got": td[:6], "want": want_dist[:6], "n_got": len(td), "n_want": len(want_dist)})
            want_obs = stat(kept if under else ws_obs)
            got_obs = float(r.observed_statistic)
            if math.isinf(got_obs) and r.status == "normal":
                ctx.violation(name + ":silent_infinite_statistic", {"status": r.status})
            elif not rel(got_obs, want_obs):
                ctx.violation(name + ":observed_statistic_wrong", {"got": got_obs, "want": want_obs, "undersampled": bool(under)})
            if r.status != ("undersampled" if under else "normal"):
                ctx.violation(name + ":status_wrong", {"got": r.status, "want": "undersampled" if under else "normal"})
            if td and tuple(float(x) for x in r.quantile) != quantiles(td, got_obs):
                ctx.violation(name + ":quantile_wrong", {"got": list(r.quantile), "want": quantiles(td, got_obs)})
        # ---------------- magnitude tests
        union = sum(c.sum(axis=0) for c in cj)           # union histogram over all catalogs
        nu = float(union.sum())
        mobs = wobs.sum(axis=0)

        def d_stat(hist, n_hist):
            return math.fsum((math.log10(union[k] / J * (n_obs / (nu / J)) + 1) - math.log10(hist[k] * (n_obs / n_hist) + 1)) ** 2 for k in range(S.nm))

        for name, fn, kw in (("M", CE.magnitude_test, {}), ("resampledM", CE.resampled_magnitude_test, {"seed": SEED}), ("MLL", CE.MLL_magnitude_test, {"seed": SEED})):
            o = call(fn, forecast(), observed_m(), verbose=VB, **kw)
            if not o.ok:
                if name != "M" and S.nm < 2:
                    ctx.count("skipped:single_magnitude_bin_resampled_tests")
                    continue
                ctx.unexpected(o, name + "_test")
                continue
            r = o.value
            if r is not None:
                all_results.append(r)
            if n_obs == 0:
                if r is None or r.status != "not-valid" or r.observed_statistic is not None or tuple(r.quantile) != (None, None):
                    ctx.violation(name + ":empty_observation_not_flagged_not_valid", {"status": getattr(r, "status", None)})
                continue
            results.append(r)
            if ctx.normalize(name, lambda: ([float(x) for x in r.test_distribution], float(r.observed_statistic), tuple(float(x) for x in r.quantile))) is None:
                continue
            td = [float(x) for x in r.test_distribution]
            got_obs = float(r.observed_statistic)
            if name == "M":
                want_dist = [d_stat(c.sum(axis=0), c.sum()) for c in cj if c.sum() > 0]
                if len(td) != len(want_dist) or not all(rel(a, b) for a, b in zip(td, want_dist)):
                    ctx.violation("M:test_distribution_wrong", {"got": td[:6], "want": want_dist[:6], "n_got": len(td), "n_want": len(want_dist)})
                want_obs = d_stat(mobs, n_obs)
            elif name == "resampledM":
                want_obs = d_stat(mobs, n_obs)
                if len(td) != J or any(math.isnan(x) or math.isinf(x) for x in td):
                    ctx.violation("resampledM:distribution_size_or_finiteness", {"n": len(td), "J": J})
                else:
                    check_resample_validity(ctx, "resampledM", td, union, n_obs, lambda h: d_stat(h, n_obs))
            else:
                want_obs = mll(union.tolist(), mobs.tolist())
                if len(td) != J or any(math.isnan(x) or math.isinf(x) for x in td):
                    ctx.violation("MLL:distribution_size_or_finiteness", {"n": len(td), "J": J})
                else:
                    check_resample_validity(ctx, "MLL", td, union, n_obs, lambda h: mll(union.tolist(), list(h)))
            if not rel(got_obs, want_obs):
                ctx.violation(name + ":observed_statistic_wrong", {"got": got_obs, "want": want_obs})
            if r.status != "normal":
                ctx.violation(name + ":status_wrong", {"got": r.status})
            if td and tuple(float(x) for x in r.quantile) != quantiles(td, got_obs):
                ctx.violation(name + ":quantile_wrong", {"got": list(r.quantile), "want": quantiles(td, got_obs)})
        # ---------------- M-test with one synthetic event within round-off BELOW THE FIRST magnitude edge (the double just below it).
        # The binning tolerance may take it into the first bin (A) or the gridding may treat it as below the minimum (B: it is in no
        # histogram, or the forecast is refused) - but the union histogram and the catalog's own histogram must make the same choice
        if case.get("synthetic_roundoff") and n_obs > 0 and case["source"] == "list" and not FX:
            from csep.core.catalogs import CSEPCatalog
            k0 = cats[0][0][0] if cats[0] else next(k for c in cats for k, _ in c)
            def forecast_r():
                region = S.region()
                cs = []
                for i, c in enumerate(cats):
                    evs = [S.event(j, k, m) for j, (k, m) in enumerate(c)]
                    if i == 0:
                        e = list(S.event(900, k0, 0))
                        e[0], e[5] = "roundoff", float(numpy.nextafter(S.edges[0], -numpy.inf))
                        evs.append(tuple(e))
                    cc = CSEPCatalog(data=evs, region=region, name="c")
                    cc.catalog_id = i
                    cs.append(cc)
                return CatalogForecast(catalogs=cs, n_cat=J, region=region, start_time=G.T0, end_time=G.T1, name="cf")
            o = call(CE.magnitude_test, forecast_r(), observed(), verbose=VB)
            ctx.count("M_tests_with_a_synthetic_event_within_roundoff_below_the_first_edge")
            if o.ok and o.value is not None and ctx.normalize("M:roundoff", lambda: [float(x) for x in o.value.test_distribution]) is not None:
                tdr = [float(x) for x in o.value.test_distribution]
                cjA = [c.copy() for c in cj]
                cjA[0][k0, 0] += 1
                unionA = sum(c.sum(axis=0) for c in cjA)
                nuA = float(unionA.sum())

                def d_statA(hist, n_hist):
                    return math.fsum((math.log10(unionA[k] / J * (n_obs / (nuA / J)) + 1) - math.log10(hist[k] * (n_obs / n_hist) + 1)) ** 2 for k in range(S.nm))
                wantA = [d_statA(c.sum(axis=0), c.sum()) for c in cjA if c.sum() > 0]
                wantB = [d_stat(c.sum(axis=0), c.sum()) for c in cj if c.sum() > 0]
                okA = len(tdr) == len(wantA) and all(rel(a, b) for a, b in zip(tdr, wantA))
                okB = len(tdr) == len(wantB) and all(rel(a, b) for a, b in zip(tdr, wantB))
                if not (okA or okB):
                    ctx.violation("M:union_and_catalog_histograms_treat_a_roundoff_event_differently", {"got": tdr[:5], "counted_everywhere": wantA[:5], "counted_nowhere": wantB[:5]})
            elif not o.ok and not isinstance(o.exc, ValueError):
                ctx.unexpected(o, "M_test:synthetic_roundoff_event")
        # ---------------- the observation is, event for event, one of the synthetic catalogs (obs_class 'copy'): the same function of the
        # same gridded counts - its statistic equals that catalog's entry of the test distribution bit for bit (no tie is lost to
        # rounding: the quantiles are fractions of comparisons with the observed statistic), in the S, PL and M tests
        if case["obs_class"] == "copy" and n_obs > 0 and not FX:
            jcopy = next(i for i, c in enumerate(cats) if sorted(c) == sorted(obs))
            for name, fn, skip_empty in (("S", CE.spatial_test, True), ("PL", CE.pseudolikelihood_test, False), ("M", CE.magnitude_test, True)):
                o = call(fn, forecast(), observed(), verbose=VB)
                if not o.ok or o.value is None:
                    continue
                tdc = ctx.normalize(name + ":copy", lambda: ([float(x) for x in o.value.test_distribution], float(o.value.observed_statistic)))
                if tdc is None:
                    continue
                pos = sum(1 for i, c in enumerate(cats[:jcopy]) if not (skip_empty and len(c) == 0))
                ctx.count("observation_is_a_copy_of_a_synthetic_catalog")
                if len(tdc[0]) != sum(1 for c in cats if not (skip_empty and len(c) == 0)):
                    continue      # distribution length is judged elsewhere
                if tdc[0][pos] != tdc[1] and not (math.isnan(tdc[0][pos]) and math.isnan(tdc[1])):
                    ctx.violation(name + ":identical_catalog_and_observation_get_different_statistics", {"entry": tdc[0][pos], "observed": tdc[1], "catalog": jcopy})
        # ---------------- a quadtree region that does not cover all synthetic events: catalog 0 keeps its first event inside (northern
        # tiles '0','1'), the others are moved to the southern hemisphere.  The mean rates cannot be formed from events outside the
        # region: the forecast is refused (ValueError), never evaluated with the outside events booked into some cell
        if case.get("partial_quadtree") and cats[0] and n_obs > 0:
            from csep.core.catalogs import CSEPCatalog
            from csep.core.regions import QuadtreeGrid2D
            qo = call(lambda: QuadtreeGrid2D.from_quadkeys(["0", "1"], magnitudes=numpy.array(S.edges)))
            if qo.ok:
                qreg = qo.value
                n_out = 1 + len(cats[0]) % 3

                def qcat(ci, c, outside):
                    evs = []
                    for j, (k, m) in enumerate(c):
                        e = list(S.event(j, k, m))
                        e[3], e[2] = -170.0 + 7.0 * (k % 40) + 0.5, 10.0 + (k % 7)          # inside tile '0' or '1'
                        evs.append(tuple(e))
                    for q in range(outside):
                        e = list(S.event(700 + q, 0, 0))
                        e[0], e[3], e[2] = "south%d" % q, 20.0 + q, -30.0 - q
                        evs.append(tuple(e))
                    cc = CSEPCatalog(data=evs, region=qreg, name="c")
                    cc.catalog_id = ci
                    return cc
                qf = CatalogForecast(catalogs=[qcat(0, cats[0][:1], n_out)] + [qcat(i, c, 0) for i, c in enumerate(cats) if i > 0], n_cat=J, region=qreg,
                                     start_time=G.T0, end_time=G.T1, name="cf")
                o = call(qf.get_expected_rates)
                ctx.count("partial_quadtree_forecasts")
                if o.ok:
                    tot = float(numpy.sum(numpy.asarray(o.value.data))) * J if o.value is not None else None
                    inside_total = 1 + sum(len(c) for c in cats[1:])
                    if tot is None or abs(tot - inside_total) > 1e-9:
                        ctx.violation("quadtree:events_outside_the_region_booked_into_cells", {"sum_of_mean_rates_x_J": tot, "events_inside": inside_total, "outside": n_out})
                elif not isinstance(o.exc, ValueError):
                    ctx.unexpected(o, "get_expected_rates:partial_quadtree")
        # ---------------- calibration test consumes delta_2 of the valid results
        valid = [r for r in all_results if r.status != "not-valid"]
        if len(valid) >= 2:
            # not-valid results are passed too: the calibration test must leave them out
            o = call(CE.calibration_test, all_results)
            if not o.ok:
                ctx.unexpected(o, "calibration_test")
            elif ctx.normalize("calibration", lambda: ([float(x) for x in o.value.test_distribution], [float(r.quantile[1]) for r in valid])) is None:
                pass
            elif [float(x) for x in o.value.test_distribution] != [float(r.quantile[1]) for r in valid]:
                ctx.violation("calibration:wrong_quantiles_collected", {"got": [float(x) for x in o.value.test_distribution][:8],
                                                                       "want": [float(r.quantile[1]) for r in valid][:8],
                                                                       "n_not_valid": len(all_results) - len(valid)})
        # ---------------- MLL with full_calculation=True (resamples from the union of magnitudes): defined for any N_obs
        if n_obs > 0 and S.nm >= 2:
            o1 = call(CE.MLL_magnitude_test, forecast(), observed(), full_calculation=True, seed=SEED)
            o2 = call(CE.MLL_magnitude_test, forecast(), observed(), full_calculation=True, seed=SEED)
            if not o1.ok or not o2.ok:
                ctx.unexpected(o1 if not o1.ok else o2, "MLL_full_calculation" + (":more_observed_than_forecast_events" if n_obs > nu else ""))
            elif ctx.normalize("MLL_full", lambda: ([float(x) for x in o1.value.test_distribution], [float(x) for x in o2.value.test_distribution],
                                                      float(o1.value.observed_statistic))) is not None:
                t1 = [float(x) for x in o1.value.test_distribution]
                if len(t1) != J or any(math.isnan(x) or math.isinf(x) for x in t1):
                    ctx.violation("MLL_full:distribution_size_or_finiteness", {"n": len(t1), "J": J})
                if t1 != [float(x) for x in o2.value.test_distribution]:
                    ctx.violation("MLL_full:not_deterministic_for_seed", {"seed": SEED})
                if not rel(float(o1.value.observed_statistic), mll(union.tolist(), mobs.tolist())):
                    ctx.violation("MLL_full:observed_statistic_wrong", {"got": float(o1.value.observed_statistic)})


def nontrivial(case):
    return len(case["cats"]) >= 3 and any(len(c) == 0 for c in case["cats"]) and len(case["obs"]) >= 2


@st.composite
def cases(draw):
    setup = draw(G.setups(max_cells=8, max_mags=4, max_events=0))
    nc, nm = len(setup["region"]["cells"]), setup["mags"]["n"]
    J = draw(st.integers(1, 12))
    # cells that the forecast may use; the rest are never sampled
    used = draw(st.lists(st.integers(0, nc - 1), min_size=1, max_size=nc, unique=True))
    cats = [draw(st.lists(st.tuples(st.sampled_from(used), st.integers(0, nm - 1)).map(list), max_size=15)) if draw(st.integers(0, 4)) else [] for _ in range(J)]
    if not any(cats):
        cats[draw(st.integers(0, J - 1))] = [[used[0], 0]]
    sampled = sorted(set(k for c in cats for k, _ in c))
    unsampled = [k for k in range(nc) if k not in sampled]
    cls = draw(st.sampled_from(["empty", "single", "sampled", "sampled", "mixed", "all_unsampled", "many", "copy", "copy"]))
    mk = lambda ks, n: [[draw(st.sampled_from(ks)), draw(st.integers(0, nm - 1))] for _ in range(n)]
    if cls == "copy":
        if draw(st.booleans()):
            # a larger catalog given by its per-magnitude-bin counts (22 events and more: the sizes at which c / N * N stops being c for some c)
            if draw(st.booleans()):
                counts = draw(st.lists(st.integers(0, 40), min_size=nm, max_size=nm).filter(lambda v: sum(v) >= 22))
            else:
                # ... with bin counts c for which c / N * N != c in double precision (7 of 41, 27 of 49; about 7% of all pairs), as far
                # as they fit; the last bin takes the rest
                N = draw(st.integers(22, 160))
                odd = [c for c in range(1, N) if c / N * N != c] or [1]
                counts, left = [], N
                for _ in range(nm - 1):
                    c = draw(st.sampled_from([x for x in odd if x <= left] or [0]))
                    counts.append(c)
                    left -= c
                counts.append(left)
            big = [[used[(i + m) % len(used)], m] for m, c in enumerate(counts) for i in range(c)]
            cats[draw(st.integers(0, J - 1))] = big
            obs = [list(e) for e in big]
        else:
            obs = [list(e) for e in next(c for c in cats if c)]       # event for event one of the synthetic catalogs
    elif cls == "empty":
        obs = []
    elif cls == "single":
        obs = mk(sampled, 1)
    elif cls == "sampled":
        obs = mk(sampled, draw(st.integers(1, 12)))
    elif cls == "many":
        obs = mk(sampled[:1], draw(st.integers(5, 30)))
    elif cls == "mixed" and unsampled:
        obs = mk(sampled, draw(st.integers(1, 6))) + mk(unsampled, draw(st.integers(1, 3)))
        obs = list(draw(st.permutations(obs)))
    elif cls == "all_unsampled" and unsampled:
        obs = mk(unsampled, draw(st.integers(1, 4)))
    else:
        obs = mk(sampled, draw(st.integers(1, 6)))
    return {"setup": setup, "cats": cats, "obs": obs, "source": draw(st.sampled_from(["list", "file_store", "file_nostore"])),
            "seed": draw(st.sampled_from([0, 1, 12345])), "obs_class": cls, "verbose": draw(st.integers(0, 3)) == 0,
            **({"repeat": draw(st.sampled_from([10, 25, 40]))} if draw(st.integers(0, 11)) == 0 else {}),
            **({"np_divide_raise": True} if draw(st.integers(0, 3)) == 0 else {}),
            **({"filtered_extra": True} if draw(st.integers(0, 2)) == 0 else {}),
            **({"np_seed": True} if draw(st.integers(0, 2)) == 0 else {}),
            **({"obs_below_min": True} if draw(st.integers(0, 2)) == 0 else {}),
            **({"obs_rejected_first": True} if draw(st.integers(0, 3)) == 0 else {}),
            **({"empty_obs_first": True} if draw(st.integers(0, 5)) == 0 else {}),
            **({"synthetic_roundoff": True} if draw(st.integers(0, 2)) == 0 else {}),
            **({"partial_quadtree": True} if draw(st.integers(0, 3)) == 0 else {})}


def run(ctx):
    def fn(c, case):
        check_case(c, case)
        c.record(case, nontrivial(case), "obs:" + case["obs_class"] + ":" + case["source"])

    ctx.drive(cases(), ctx.n(300, 3000), fn=fn, salt=1)
