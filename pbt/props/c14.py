"""C14 - catalog persistence round-trips preserve every event."""
import json
import os
import struct
import tempfile

import numpy
from hypothesis import strategies as st

from pbt import exact, lattice
from pbt.core import call, draw_tz, workdir

PROP = "C14"
TECHNIQUE = "Hypothesis-generated catalogs (awkward ids, all ms phases over 1900..2200, extreme / 17-digit doubles) through four write->load round trips compared field by field, bitwise"
RULE = ("(1 case in 3: loads that cannot succeed are made right before the judged ASCII load, unjudged) one case = catalog of 0..30 events (ids: printable ASCII <= 64 chars incl. ',' '\"' ';' and spaces; origin times uniform over "
        "1900..2200 at every millisecond phase plus whole seconds; coordinates/depth/magnitude as shortest-repr decimals, arbitrary doubles and "
        "+-180, +-90, 0, -0.0) x integer catalog id x name x optional unmasked region (half of them with magnitude bins bound; events below the first edge occur) x write options (header, append in two parts); "
        "round trips: write_ascii->csep.load_catalog, to_dict->from_dict, write_json->load_json, to_dataframe->from_dataframe. "
        "Non-trivial = an id containing a delimiter or quote and a pre-1970 or non-whole-second time; distinct = canonical JSON.")
ASSUMPTIONS = ["ids are non-empty, not all blanks, <= 64 printable ASCII characters incl. leading/trailing blanks (the dtype stores 256 bytes)",
               "catalog id through ASCII only when >= 1 event (the format carries it per row)",
               "float fields compared bitwise (struct pack), origin_time as integers"]
SHARDS = {"quick": 8, "thorough": 16}
MS_LO = -2208988800000
MS_HI = 7258118400000


def bits(x):
    return struct.pack("<d", float(x))


def rows(cat):
    out = []
    for r in cat.catalog.tolist():
        rid = r[0].decode("utf-8", "backslashreplace") if isinstance(r[0], bytes) else str(r[0])
        out.append((rid, int(r[1])) + tuple(bits(v) for v in r[2:]))
    return out


def want_rows(events):
    return [(e[0], int(e[1])) + tuple(bits(v) for v in e[2:]) for e in events]


def compare(ctx, name, got_cat, events, cid, check_id=True):
    got = ctx.normalize(name + ":rows", lambda: rows(got_cat))
    if got is None:
        return
    want = want_rows(events)
    if len(got) != len(want):
        ctx.violation(name + ":event_count", {"got": len(got), "want": len(want)})
        return
    for k, (g, w) in enumerate(zip(got, want)):
        if g != w:
            fld = [("id", "origin_time", "latitude", "longitude", "depth", "magnitude")[j] for j in range(6) if g[j] != w[j]]
            ctx.violation("%s:field:%s" % (name, ",".join(fld)), {"event": k, "got": repr(got_cat.catalog[k].tolist()), "want": repr(events[k])})
            return
    if check_id:
        g = got_cat.catalog_id
        import numbers
        if not isinstance(g, (numbers.Integral, numpy.integer)) or isinstance(g, bool) or int(g) != cid:
            # "an integer catalog id survives every format": None, a float, a string, a pandas Series ... are not an integer id
            ctx.violation(name + ":catalog_id", {"got": repr(g)[:200], "type": type(g).__name__, "want": cid})


def check_case(ctx, case):
    import csep
    from csep.core.catalogs import CSEPCatalog
    events = [tuple(e) for e in case["events"]] * case.get("repeat", 1)      # "repeat": large catalogs
    cid = case["catalog_id"]
    region = None
    L = None
    if case.get("region"):
        L = lattice.Lattice(case["region"])
        # "region_mags": the region carries magnitude bins (a space-magnitude region, as forecast.region is); the catalog is not cut at
        # the first edge - the round trips are those of the catalog, whatever the bins
        rm = case.get("region_mags")
        ob = call(L.build, "from_origins", magnitudes=numpy.array(exact.decimal_grid(rm["start"], rm["step"], rm["n"])) if rm else None)
        if not ob.ok:
            ctx.unexpected(ob, "build_region")
            return
        region = ob.value

    def fresh(evs=None):
        return CSEPCatalog(data=list(events if evs is None else evs), catalog_id=cid, name=case["name"], region=region)

    with workdir() as d:
        # ---- ASCII
        p = os.path.join(d, "cat.csv")
        if case.get("pathlib"):
            import pathlib
            p = pathlib.Path(p)          # file names are accepted as str and as pathlib.Path
        hdr = case["header"]
        if case.get("append_to_empty") and events:
            # an empty catalog written first (with or without header), the events appended with the default header: the file then
            # starts with up to two header lines, which write_ascii produces by itself
            o = call(lambda: (fresh([]).write_ascii(p, write_header=hdr), fresh().write_ascii(p, append=True)))
            ctx.count("appended_to_an_empty_catalog_file")
        elif case["append"] and len(events) >= 2:
            h = len(events) // 2
            o = call(lambda: (fresh(events[:h]).write_ascii(p, write_header=hdr), fresh(events[h:]).write_ascii(p, write_header=False, append=True)))
        else:
            o = call(lambda: fresh().write_ascii(p, write_header=hdr))
        if not o.ok:
            ctx.unexpected(o, "write_ascii")
        else:
            if case.get("failed_loads_first"):
                # loads that cannot succeed (no file name, a missing file, a directory, a file of another kind, an unknown type), made
                # right before the judged one; not judged themselves
                g = os.path.join(d, "not_a_catalog.csv")
                with open(g, "w") as f:
                    f.write("lon,lat,mag\n1,2\nabc,,,,\n")
                for bad in (lambda: csep.load_catalog(None), lambda: csep.load_catalog(os.path.join(d, "missing.csv")), lambda: csep.load_catalog(d),
                            lambda: csep.load_catalog(g), lambda: csep.load_catalog(p, type="no-such-type"), lambda: csep.load_catalog(g, format="csep"),
                            # the class's own entry point (csep.load_catalog ends there), handed something that is not a file name
                            lambda: CSEPCatalog.load_catalog(None), lambda: CSEPCatalog.load_catalog(12.5), lambda: CSEPCatalog.load_catalog(g)):
                    call(bad)
                ctx.count("ascii_loads_after_failed_loads")
            o = call(csep.load_catalog, p)
            if not o.ok:
                ctx.unexpected(o, "load_catalog_ascii")
            else:
                compare(ctx, "ascii", o.value, events, cid, check_id=len(events) > 0)
        # ---- dict
        o = call(lambda: CSEPCatalog.from_dict(fresh().to_dict()))
        if not o.ok:
            ctx.unexpected(o, "dict_roundtrip")
        else:
            compare(ctx, "dict", o.value, events, cid)
            check_meta(ctx, "dict", o.value, case, L, region)
        # a second region in the same process that differs only in the order of its cells (same name, spacing, cell count and
        # bounding box): it must come back as itself, not as the one loaded before
        if region is not None and len(L.cells) >= 2:
            Lv = lattice.Lattice(dict(case["region"], cells=list(reversed(case["region"]["cells"]))))
            ov = call(Lv.build, "from_origins")
            if ov.ok:
                region_v = ov.value
                o = call(lambda: CSEPCatalog.from_dict(CSEPCatalog(data=list(events), catalog_id=cid, name=case["name"], region=region_v).to_dict()))
                if not o.ok:
                    ctx.unexpected(o, "dict_roundtrip:second_region")
                else:
                    ctx.count("second_region_roundtrips")
                    check_meta(ctx, "dict:second_region_same_extent", o.value, case, Lv, region_v)
        # ---- JSON
        pj = os.path.join(d, "cat.json")
        if case.get("pathlib"):
            pj = pathlib.Path(pj)
        o = call(lambda: (fresh().write_json(pj), CSEPCatalog.load_json(pj))[1])
        if not o.ok:
            ctx.unexpected(o, "json_roundtrip")
        else:
            compare(ctx, "json", o.value, events, cid)
            check_meta(ctx, "json", o.value, case, L, region)
        o = call(lambda: csep.load_catalog(pj))
        if not o.ok:
            ctx.unexpected(o, "load_catalog_json")
        else:
            compare(ctx, "json_via_load_catalog", o.value, events, cid)
        # ---- DataFrame
        o = call(lambda: CSEPCatalog.from_dataframe(fresh().to_dataframe()))
        if not o.ok:
            ctx.unexpected(o, "dataframe_roundtrip")
        else:
            compare(ctx, "dataframe", o.value, events, cid, check_id=len(events) > 0)
        o = call(lambda: CSEPCatalog.from_dataframe(fresh().to_dataframe(with_datetime=True)))
        if not o.ok:
            ctx.unexpected(o, "dataframe_with_datetime_roundtrip")
        else:
            compare(ctx, "dataframe_dt", o.value, events, cid, check_id=len(events) > 0)


def check_meta(ctx, name, cat, case, L, region):
    if cat.name != case["name"]:
        ctx.violation(name + ":name", {"got": repr(cat.name), "want": case["name"]})
    if region is None:
        return
    r2 = cat.region
    if r2 is None:
        ctx.violation(name + ":region_lost", None)
        return
    if not hasattr(r2, "get_masked") or not hasattr(r2, "to_dict"):
        ctx.violation(name + ":region_not_a_region_object", {"type": type(r2).__name__})
        return
    if r2.to_dict() != region.to_dict():
        ctx.violation(name + ":region_dict_differs", None)
        return
    pts = L.probe_points(full_jitter=False)[:400]
    lons = numpy.array([p[0] for p in pts])
    lats = numpy.array([p[1] for p in pts])
    m1, m2 = region.get_masked(lons, lats), r2.get_masked(lons, lats)
    if not numpy.array_equal(m1, m2):
        ctx.violation(name + ":region_masks_differently", None)
        return
    keep = ~m1
    if keep.any() and not numpy.array_equal(region.get_index_of(lons[keep], lats[keep]), r2.get_index_of(lons[keep], lats[keep])):
        ctx.violation(name + ":region_indexes_differently", None)


def nontrivial(case):
    ev = case["events"]
    return any(any(ch in e[0] for ch in ',";') for e in ev) and any(e[1] < 0 or e[1] % 1000 for e in ev)


ID_ALPHA = st.characters(min_codepoint=32, max_codepoint=126)


@st.composite
def ids(draw):
    s = draw(st.one_of(st.text(ID_ALPHA, min_size=1, max_size=12), st.text(ID_ALPHA, min_size=1, max_size=64),
                       st.sampled_from(['a,b', 'x"y', '"quoted"', 'semi;colon', 'with space', "ci38457511", "0", "1e5", "-1", "'", ",", '""', " ev 7", "ev 7 ", "  x", "\tno"[1:],
                                        # ids that look like numbers / keywords: they are strings and come back unchanged
                                        "007", "00", "0.50", "+1", "1_000", "0x1F", "1.", ".5", "NaN", "inf", "None", "True", "null", "1E3", "12345678901234567890"]),
                       st.integers(0, 10**6).map(lambda v: "%08d" % v)))
    if not s.strip():
        s = draw(st.sampled_from(["id", " id", "id ", "  two  blanks "]))
    return s


def coord(lo, hi):
    return st.one_of(st.floats(lo, hi, allow_nan=False), st.integers(int(lo * 100), int(hi * 100)).map(lambda x: x / 100),
                     st.sampled_from([lo, hi, 0.0, -0.0]))


@st.composite
def cases(draw):
    n = draw(st.one_of(st.integers(0, 2), st.integers(0, 30)))
    ev = []
    for i in range(n):
        t = draw(st.one_of(st.integers(MS_LO, MS_HI), st.integers(MS_LO // 1000, MS_HI // 1000).map(lambda x: x * 1000)))
        ev.append([draw(ids()), t, draw(coord(-90, 90)), draw(coord(-180, 180)), draw(coord(-5, 700)), draw(coord(-2, 10))])
    c = {"events": ev, "catalog_id": draw(st.one_of(st.integers(0, 5), st.integers(0, 10**6), st.sampled_from([2**53 + 1, 2**62 + 3, 2**63 - 1, 2**31, 2**32 + 1]))),
         "name": draw(st.sampled_from(["cat", "my catalog", "ucerf3-landers", "x,y", ""])) or "cat",
         "header": draw(st.booleans()), "append": draw(st.booleans())}
    if draw(st.integers(0, 2)) == 0:
        rc = draw(lattice.lattices(max_n=5, flags=False))
        rc["dh_mode"] = "decimal"
        c["region"] = rc
        # a catalog bound to a region holds events inside it (to_dataframe looks every event up in the region)
        L = lattice.Lattice(rc)
        for e in ev:
            i, j = draw(st.sampled_from(L.cells))
            fx, fy = draw(st.sampled_from([0, 0.25, 0.5, 0.75])), draw(st.sampled_from([0, 0.25, 0.5, 0.75]))
            x0, y0 = L._coord(L.lon0, i), L._coord(L.lat0, j)
            e[3] = x0 if fx == 0 else x0 + fx * L.fdh
            e[2] = y0 if fy == 0 else y0 + fy * L.fdh
        if draw(st.booleans()):
            c["region_mags"] = {"start": draw(st.sampled_from(["4.95", "2.5", "0.0"])), "step": draw(st.sampled_from(["0.1", "0.5"])), "n": draw(st.integers(1, 5))}
    if draw(st.integers(0, 5)) == 0:
        c["append_to_empty"] = True
    if draw(st.integers(0, 3)) == 0:
        c["pathlib"] = True
    if draw(st.integers(0, 2)) == 0:
        c["failed_loads_first"] = True
    if n and draw(st.integers(0, 15)) == 0:
        c["repeat"] = draw(st.sampled_from([50, 200]))
    return draw_tz(draw, c)


def run(ctx):
    def fn(c, case):
        check_case(c, case)
        c.record(case, nontrivial(case), "catalog" + (":region" if case.get("region") else "") + (":empty" if not case["events"] else ""))

    ctx.drive(cases(), ctx.n(200, 2000), fn=fn, salt=1)
