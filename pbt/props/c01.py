"""C01 - Cartesian regions assign each point to the one half-open cell containing it."""
import os

import numpy
from hypothesis import strategies as st

from pbt import exact, lattice
from pbt.core import call, REPO

PROP = "C01"
TECHNIQUE = "Hypothesis-generated lattices with constructed edge/ulp/hole/outside probe sets vs. exact rational containment oracle; cross-agreement of lookup, masking, spatial filter and counts; shipped regions enumerated node by node"
RULE = ("one case = a lattice (decimal spacing and anchor, extent 1..12 x 1..12, removed cells, mask flags, permuted cell order, origins "
        "either clean decimals or 'midpoint - dh/2' floats) built through from_origins / constructor with mask / to_dict->from_dict, probed "
        "at every node of the bounding box extended by one cell with (0,+-1,+-2,+4096 ulp) jitter per axis, cell interiors, points in "
        "holes, points 3x and 1000x slack below edges, far outside; a separate drive of fine lattices (0.001 .. 0.0001 deg); shipped regions (NZ, NZ collection, Italy collection, California "
        "collection, global 2/1 deg; thorough: global 0.5, NZ x2): every bounding-box node with 7 jitters. Non-trivial = lattice with "
        ">= 2 cells (its probe set then contains points exactly on an interior cell edge and points that must be rejected); "
        "distinct = canonical JSON of the lattice.")
ASSUMPTIONS = ["cell i is [lon_i, lon_(i+1)) x [lat_i, lat_(i+1)) with lon_i the origin floats handed to the library; last column/row ends at origin + dh (exact); on a decimal lattice the float of the decimal outer boundary lon0 + (i0+nx)*dh is itself outside (a boundary coordinate belongs to the cell it opens, and the outer one opens none)",
               "a point within slack = 4*eps*(k+2)*(|e0|+|e1|+|v|) below a boundary may be attributed to either adjacent cell (documented round-off tolerance)",
               "mask flags only take effect through the constructor's mask= argument (flag 1 = valid)",
               "global_region probed at dh in {2,1} (thorough 0.5); dh=0.1 needs 6.5M Polygon objects; California/Italy *testing* regions need emptied XML files"]
SHARDS = {"quick": 8, "thorough": 16}


def hx2(p):
    return [float(p[0]).hex(), float(p[1]).hex()]


def check_region(ctx, case, L, region, pts, use_flags, light=False):
    from csep.core.catalogs import CSEPCatalog
    lons = numpy.array([p[0] for p in pts])
    lats = numpy.array([p[1] for p in pts])

    def mini(i, **kw):
        c = {k: v for k, v in case.items() if k not in ("pts", "extra")}
        c["pts"] = [hx2(pts[i])]
        c.update(kw)
        return c

    o = call(region.get_masked, lons, lats)
    if not o.ok:
        ctx.unexpected(o, "get_masked")
        return
    masked = numpy.asarray(o.value).astype(bool)
    if masked.shape != lons.shape:
        ctx.violation("get_masked_shape", {"got": list(masked.shape)})
        return
    cls = [L.classify(float(x), float(y), use_flags) for x, y in pts]
    ctx.count("points", len(pts))
    # Known-finding classifier: when the spacing was *inferred* from coordinate differences (from_origins(dh=None), or the
    # difference handed in as load_ascii does) and differs from the decimal spacing, an answer that is exactly right for the
    # library's own grid origin + k*region.dh is bucketed separately (":inferred_spacing_roundoff").
    alt = None
    if case.get("dh_mode") in ("none", "diff") and float(region.dh) != L.fdh:
        alt = L.with_spacing(float(region.dh))
        ctx.count("lattices_with_inferred_spacing_differing_from_decimal")

    def bucket(name, i, got):
        """got: None = reported outside, k = reported in cell k"""
        if alt is not None:
            sure2, cands2 = alt.classify(float(pts[i][0]), float(pts[i][1]), use_flags)
            ok = (got is None and not sure2) or (got is not None and got in cands2)
            if ok:
                # decimal spacings are recovered exactly by the library (F25); a spacing that is not a short decimal cannot be
                # recovered from two doubles beyond their round-off: separate bucket (recorded finding)
                return name + (":inferred_spacing_roundoff" if lattice.short_decimal(case) else ":inferred_nondecimal_spacing_roundoff")
        return name

    for i, (sure, cands) in enumerate(cls):
        if sure and masked[i]:
            ctx.violation(bucket("inside_point_masked", i, None), {"pt": pts[i], "cell": sorted(cands), "region_dh": float(region.dh)}, mini(i))
        elif not cands and not masked[i]:
            o1 = call(region.get_index_of, lons[i:i + 1], lats[i:i + 1])
            got = int(o1.value[0]) if o1.ok else -2
            ctx.violation(bucket("outside_point_not_masked", i, got), {"pt": pts[i], "region_dh": float(region.dh)}, mini(i))
    un = [i for i in range(len(pts)) if not masked[i]]
    ma = [i for i in range(len(pts)) if masked[i]]
    ctx.count("points_unmasked", len(un))
    ctx.count("points_masked", len(ma))
    idx = None
    if un:
        o = call(region.get_index_of, lons[un], lats[un])
        if not o.ok:
            if isinstance(o.exc, ValueError):
                # find a culprit
                for i in un:
                    oo = call(region.get_index_of, lons[i:i + 1], lats[i:i + 1])
                    if not oo.ok:
                        ctx.violation("unmasked_point_rejected_by_lookup", {"pt": pts[i]}, mini(i))
                        break
            else:
                ctx.unexpected(o, "get_index_of")
        else:
            idx = [int(k) for k in o.value]
            if any(not (0 <= k < len(L.cells)) for k in idx):
                bad = next(j for j, k in enumerate(idx) if not (0 <= k < len(L.cells)))
                ctx.violation("lookup_returned_index_out_of_range", {"pt": pts[un[bad]], "got": idx[bad], "n_cells": len(L.cells)}, mini(un[bad]))
                idx = None
        if idx is not None:
            for i, k in zip(un, idx):
                _, cands = cls[i]
                if cands and k not in cands:
                    ctx.violation(bucket("wrong_cell", i, k), {"pt": pts[i], "got": k, "admissible": sorted(cands), "region_dh": float(region.dh),
                                                 "got_origin": list(L.origins()[k]) if 0 <= k < len(L.cells) else None}, mini(i))
    # masked points must be rejected by the lookup (individually; a sample when there are many)
    step = max(1, len(ma) // (30 if light else 120))
    for i in ma[::step]:
        o = call(region.get_index_of, lons[i:i + 1], lats[i:i + 1])
        if o.ok:
            ctx.violation("masked_point_indexed", {"pt": pts[i], "got": [int(k) for k in o.value]}, mini(i))
        elif not isinstance(o.exc, ValueError):
            ctx.unexpected(o, "get_index_of_masked", mini(i))
    # the same coordinates handed over as Python lists / tuples instead of arrays: same answers
    if idx is not None and un:
        sub = un[:: max(1, len(un) // 50)]
        def ro(it):
            a = numpy.array(list(it))
            a.setflags(write=False)
            return a

        def strided(it):
            v = list(it)
            b = numpy.full(2 * len(v) + 1, 1e300)
            b[1::2] = v
            return b[1::2]
        for cname, conv in (("list", list), ("tuple", tuple), ("readonly_array", ro), ("bigendian_array", lambda it: numpy.array(list(it), dtype=">f8")),
                            ("strided_view", strided)):
            o = call(region.get_index_of, conv(float(lons[i]) for i in sub), conv(float(lats[i]) for i in sub))
            want_sub = [idx[un.index(i)] for i in sub]
            if not o.ok:
                ctx.unexpected(o, "get_index_of:" + cname)
            elif [int(k) for k in o.value] != want_sub:
                ctx.violation("lookup_depends_on_container:" + cname, {"n": len(sub)}, mini(sub[0]))
        o = call(region.get_masked, [float(x) for x in lons], [float(y) for y in lats])
        if not o.ok:
            ctx.unexpected(o, "get_masked:list")
        elif not numpy.array_equal(numpy.asarray(o.value).astype(bool), masked):
            ctx.violation("masking_depends_on_container:list", None)
    # and unmasked single-point lookups agree with the vector lookup
    if idx is not None:
        step = max(1, len(un) // (30 if light else 120))
        for pos in range(0, len(un), step):
            i = un[pos]
            o = call(region.get_index_of, [pts[i][0]], [pts[i][1]])
            if not o.ok or int(o.value[0]) != idx[pos]:
                ctx.violation("scalar_vector_lookup_disagree", {"pt": pts[i], "vector": idx[pos], "single": repr(o)}, mini(i))
    # ---- catalog observers agree with the same partition
    events = [("e%d" % i, i, float(lats[i]), float(lons[i]), 1.0, 5.0) for i in range(len(pts))]
    # the catalog may already be bound to another region (a one-cell region far away): the region handed over decides
    from csep.core.regions import CartesianGrid2D
    far = call(lambda: CartesianGrid2D.from_origins(numpy.array([[float(min(lons)) - 50 * L.fdh - 7.0, float(min(lats))]]), dh=L.fdh))
    for in_place, bound in ((False, False), (True, False), (False, True), (True, True)):
        if bound and not far.ok:
            continue
        cat = CSEPCatalog(data=events, region=far.value if bound else None)
        o = call(cat.filter_spatial, region, in_place=in_place)
        if not o.ok:
            ctx.unexpected(o, "filter_spatial")
            continue
        kept = [int(t) for t in o.value.get_epoch_times()]
        if kept != un:
            diff = sorted(set(kept) ^ set(un))
            ctx.violation("filter_spatial_disagrees_with_mask" + (":catalog_bound_to_another_region" if bound else ""),
                          {"n_kept": len(kept), "n_unmasked": len(un), "first": diff[:3], "pt": [pts[i] for i in diff[:3]]}, mini(diff[0]) if diff else None)
        if not in_place and cat.event_count != len(pts):
            ctx.violation("filter_spatial_mutated_source", None)
    # an empty catalog goes through the same hand-over: afterwards it is bound to the region and its counts are zeros, one per cell
    for in_place in (True, False):
        ce = CSEPCatalog(data=[])
        oe = call(lambda: ce.filter_spatial(region, in_place=in_place).spatial_counts())
        if not oe.ok:
            ctx.unexpected(oe, "filter_spatial:empty_catalog")
        elif numpy.asarray(oe.value).shape != (len(L.cells),) or numpy.asarray(oe.value).any():
            ctx.violation("empty_catalog_counts_after_filter_spatial", {"shape": list(numpy.asarray(oe.value).shape), "cells": len(L.cells)})
    # sub-catalogs: the decision per event does not depend on which other events are in the catalog (all events inside the
    # bounding box, single events, only masked events)
    bb = call(region.get_bbox)
    subsets = []
    if bb.ok:
        x0, x1, y0, y1 = [float(v) for v in bb.value]
        inside_box = [i for i in range(len(pts)) if x0 < pts[i][0] < x1 and y0 < pts[i][1] < y1]
        if inside_box:
            subsets.append(("inside_bbox", inside_box))
    if ma:
        subsets.append(("only_masked", ma[::max(1, len(ma) // 40)]))
        inner = [i for i in ma if cls[i][1] == set() and bb.ok and x0 < pts[i][0] < x1 and y0 < pts[i][1] < y1]
        for i in inner[:3]:
            subsets.append(("single_masked_inside_bbox", [i]))
    if un:
        subsets.append(("single_unmasked", [un[len(un) // 2]]))
    for name, sub in subsets:
        cat = CSEPCatalog(data=[events[i] for i in sub])
        o = call(cat.filter_spatial, region, in_place=False)
        if not o.ok:
            ctx.unexpected(o, "filter_spatial:" + name)
            continue
        kept = [int(t) for t in o.value.get_epoch_times()]
        want_kept = [i for i in sub if not masked[i]]
        ctx.count("filter_spatial_subset:" + name)
        if any(masked[i] for i in sub):
            ctx.count("filter_spatial_subset_with_masked:" + name)
        if kept != want_kept:
            diff = sorted(set(kept) ^ set(want_kept))
            ctx.violation("filter_spatial_subset_disagrees_with_mask", {"subset": name, "n": len(sub), "first": diff[:3], "pt": [pts[i] for i in diff[:3]]},
                          mini(diff[0]) if diff else None)
    if idx is not None:
        # duplicates: every third unmasked point twice
        ev2 = [events[i] for i in un] + [events[i] for i in un[::3]]
        want = numpy.zeros(len(L.cells))
        for k in idx + idx[::3]:
            want[k] += 1
        cat = CSEPCatalog(data=ev2, region=region)
        if "cells" in case and len(case["cells"]) >= 2 and len(ev2) % 2:
            # the catalog object was counted on another region object first (same cells listed in reverse order, so the events are
            # inside it too) and then re-bound: counts belong to the region it has now
            rev = call(lambda: lattice.Lattice(dict(case, cells=list(reversed(case["cells"])), flags=None)).build("from_origins"))
            if rev.ok:
                cat = CSEPCatalog(data=ev2, region=rev.value)
                call(cat.spatial_counts)
                call(cat.spatial_event_probability)
                cat.region = region
                ctx.count("catalogs_rebound_after_counting_on_another_region")
        o = call(cat.spatial_counts)
        if not o.ok:
            ctx.unexpected(o, "spatial_counts")
        elif o.value.shape != want.shape or not numpy.array_equal(o.value, want):
            ctx.violation("spatial_counts_disagree_with_lookup", {"sum": float(numpy.sum(o.value)), "want_sum": float(want.sum())})
        o = call(cat.spatial_event_probability)
        if not o.ok:
            ctx.unexpected(o, "spatial_event_probability")
        elif not numpy.array_equal(o.value, (want > 0).astype(float)):
            ctx.violation("spatial_event_probability_disagrees", None)
        if ma:
            cat = CSEPCatalog(data=[events[un[0]], events[ma[0]]] + ev2[:3], region=region)
            o = call(cat.spatial_counts)
            if o.ok:
                ctx.violation("spatial_counts_counted_outside_event", {"pt": pts[ma[0]], "sum": float(numpy.sum(o.value))}, mini(ma[0]))
            elif not isinstance(o.exc, ValueError):
                ctx.unexpected(o, "spatial_counts_outside")
        # get_location_of / get_cartesian
        uniq = sorted(set(idx))
        o = call(region.get_location_of, uniq)
        if not o.ok:
            ctx.unexpected(o, "get_location_of")
        else:
            org = L.origins()
            for k, poly in zip(uniq, o.value):
                if tuple(float(t) for t in poly.origin) != (float(org[k][0]), float(org[k][1])):
                    ctx.violation("get_location_of_wrong_polygon", {"k": k, "got": list(poly.origin), "want": list(org[k])})
                    break
    o = call(region.get_cartesian, numpy.arange(len(L.cells), dtype=float))
    if not o.ok:
        ctx.unexpected(o, "get_cartesian")
    else:
        g = o.value
        act = L.active if use_flags else L.index
        if g.shape != (L.ny, L.nx):
            ctx.violation("get_cartesian_shape", {"got": list(g.shape), "want": [L.ny, L.nx]})
        else:
            for i in range(L.nx):
                for j in range(L.ny):
                    k = act.get((i + L.i0, j + L.j0))
                    v = g[j, i]
                    if (k is None and not numpy.isnan(v)) or (k is not None and v != k):
                        ctx.violation("get_cartesian_wrong", {"ij": [i, j], "got": float(v), "want": k})
                        return
        # laying data out on the bounding-box grid is a read-only request: the lookups answer as before (other data than the
        # cell numbers themselves, so that an overwritten index table shows)
        call(region.get_cartesian, numpy.arange(len(L.cells), dtype=float)[::-1] * 3.0 + 7.0)
        if idx is not None and un:
            o2 = call(region.get_index_of, lons[un], lats[un])
            if not o2.ok:
                ctx.unexpected(o2, "get_index_of:after_get_cartesian")
            elif [int(k) for k in o2.value] != idx:
                bad = next(j for j, (a, b) in enumerate(zip([int(k) for k in o2.value], idx)) if a != b)
                ctx.violation("lookup_changed_by_get_cartesian", {"pt": pts[un[bad]], "before": idx[bad], "after": int(o2.value[bad])}, mini(un[bad]))


def check_case(ctx, case):
    if "shipped" in case:
        return check_shipped(ctx, case)
    L = lattice.Lattice(case)
    ctor = case["ctor"]
    o = call(L.build, ctor)
    if not o.ok:
        ctx.unexpected(o, "build_region:" + ctor)
        return
    region = o.value
    if region.num_nodes != len(L.cells):
        ctx.violation("num_nodes_wrong", {"got": region.num_nodes, "want": len(L.cells)})
        return
    if "pts" in case:
        pts = [(float.fromhex(a), float.fromhex(b)) for a, b in case["pts"]]
    else:
        extra = [(float.fromhex(a), float.fromhex(b)) for a, b in case.get("extra", [])]
        pts = L.probe_points(full_jitter=(L.nx * L.ny <= 36), rng_extra=extra)
    check_region(ctx, case, L, region, pts, use_flags=(ctor == "ctor_mask"))


# ------------------------------------------------------------------ shipped regions
SHIPPED = {
    "nz": ("nz_csep_region", {}, "nz.testing.nodes.dat", "0.1"),
    "nz_collection": ("nz_csep_collection_region", {}, "nz.collection.nodes.dat", "0.1"),
    "italy_collection": ("italy_csep_collection_region", {}, "italy.collection.nodes.dat", "0.1"),
    "california_collection": ("california_relm_collection_region", {}, "RELMCollectionArea.dat", "0.1"),
    "global2": ("global_region", {"dh": 2}, None, "2"),
    "global1": ("global_region", {"dh": 1}, None, "1"),
    "global05": ("global_region", {"dh": 0.5}, None, "0.5"),
}


class ShippedLattice(lattice.Lattice):
    def __init__(self, name):
        from fractions import Fraction
        fn, kw, datafile, dh = SHIPPED[name]
        self.case = {"shipped": name}
        self.dh = exact.frac(dh)
        self.fdh = exact.fl(self.dh)
        if datafile:
            mids = numpy.loadtxt(os.path.join(REPO, "csep", "artifacts", "Regions", datafile))
            org = mids - self.fdh / 2
        else:
            lons = exact.decimal_grid("-180", dh, int(360 / self.fdh))
            lats = exact.decimal_grid("-90", dh, int(180 / self.fdh))
            org = numpy.array([[x, y] for x in lons for y in lats])
        self._org = org
        x0, y0 = org[:, 0].min(), org[:, 1].min()
        ci = numpy.rint((org[:, 0] - x0) / self.fdh).astype(int)
        cj = numpy.rint((org[:, 1] - y0) / self.fdh).astype(int)
        self.cells = list(zip(ci.tolist(), cj.tolist()))
        self.i0 = self.j0 = 0
        self.nx, self.ny = int(ci.max()) + 1, int(cj.max()) + 1
        self.flags = [1] * len(self.cells)
        self.index = {c: k for k, c in enumerate(self.cells)}
        self.active = self.index
        # per-column / per-row origin floats (columns without... every column of a bounding box holds at least one cell)
        ex = [None] * self.nx
        ey = [None] * self.ny
        for (i, j), (x, y) in zip(self.cells, org.tolist()):
            ex[i] = x if ex[i] is None else ex[i]
            ey[j] = y if ey[j] is None else ey[j]
        self.ex, self.ey = ex, ey
        self.lon0 = Fraction(ex[0])
        self.lat0 = Fraction(ey[0])

    def _coord(self, a0, i):
        edges = self.ex if a0 == self.lon0 and a0 != self.lat0 else None
        raise NotImplementedError

    def origins(self):
        return self._org

    def nodes(self):
        xs = [self.ex[0] - self.fdh] + self.ex + [self.ex[-1] + self.fdh, self.ex[-1] + 2 * self.fdh]
        ys = [self.ey[0] - self.fdh] + self.ey + [self.ey[-1] + self.fdh, self.ey[-1] + 2 * self.fdh]
        return xs, ys


_SHIPPED_CACHE = {}


def check_shipped(ctx, case):
    from csep.core import regions
    name = case["shipped"]
    if name not in _SHIPPED_CACHE:
        fn, kw, _, _ = SHIPPED[name]
        o = call(getattr(regions, fn), **kw)
        if not o.ok:
            ctx.unexpected(o, "shipped_region:" + name)
            return
        _SHIPPED_CACHE[name] = (ShippedLattice(name), o.value)
    L, region = _SHIPPED_CACHE[name]
    if region.num_nodes != len(L.cells):
        ctx.violation("num_nodes_wrong", {"got": region.num_nodes, "want": len(L.cells)})
        return
    # polygon order must be the file order (index == row of the data file)
    if not numpy.array_equal(region.origins(), L.origins()):
        ctx.violation("shipped_origins_differ_from_file", None)
    if "pts" in case:
        pts = [(float.fromhex(a), float.fromhex(b)) for a, b in case["pts"]]
    else:
        xs, ys = L.nodes()
        a, b = case["jit"]
        jx = [exact.ulp_step(x, a) if a else x for x in xs]
        jy = [exact.ulp_step(y, b) if b else y for y in ys]
        if case.get("centre"):
            jx = [x + L.fdh / 2 for x in xs]
            jy = [y + L.fdh / 2 for y in ys]
        pts = [(x, y) for x in jx for y in jy]
    check_region(ctx, case, L, region, pts, use_flags=False, light=True)


def run(ctx):
    @st.composite
    def cases(draw, spacings=lattice.SPACINGS):
        c = draw(lattice.lattices(spacings=spacings))
        c["ctor"] = draw(st.sampled_from(["from_origins", "ctor_mask", "ctor_mask", "dict"]))
        ex = draw(st.lists(st.tuples(st.floats(-180, 180, allow_nan=False), st.floats(-90, 90, allow_nan=False)), max_size=5))
        c["extra"] = [hx2(p) for p in ex]
        return c

    def fn(c, case):
        check_case(c, case)
        c.record(case, len(case["cells"]) >= 2, "lattice:" + case["ctor"])

    ctx.drive(cases(), ctx.n(40, 500), fn=fn, salt=1)

    # fine lattices (0.001 .. 0.0001 deg: cells of 10-100 m, up to six orders of magnitude below their coordinates)
    def fn_fine(c, case):
        check_case(c, case)
        c.record(case, len(case["cells"]) >= 2, "lattice:fine:" + case["ctor"])

    ctx.drive(cases(spacings=["0.0001", "0.0002", "0.0005", "0.001"]), ctx.n(12, 150), fn=fn_fine, salt=6)

    # lattices whose spacing the library has to infer (from_origins(dh=None) takes it from the first two latitudes / longitudes) while
    # the two axes live on very different scales and signs: one axis far from zero (both signs), the other within a degree of zero
    @st.composite
    def inferred(draw):
        dh = draw(st.sampled_from(["0.1", "0.2", "0.05", "0.25", "0.3", "0.5"]))
        big = draw(st.sampled_from(["-43.11", "-125.4", "-41.7", "-60.25", "-9.9", "43.11", "125.4", "9.99", "-170.3", "35.95"]))
        small = draw(st.sampled_from(["0", "-0.1", "0.1", "-0.3", "0.2", "-0.5", "0.05"]))
        big_is_lat = draw(st.booleans()) and abs(float(big)) < 80
        nx, ny = draw(st.integers(2, 5)), draw(st.integers(2, 5))
        cells = [[i, j] for i in range(nx) for j in range(ny)]          # latitude fast: the first two origins are latitude neighbours
        if draw(st.booleans()):
            cells = [[i, j] for j in range(ny) for i in range(nx)]      # longitude fast
        c = {"dh": dh, "lon0": small if big_is_lat else big, "lat0": big if big_is_lat else small, "cells": cells, "flags": None,
             "origin_mode": "clean", "dh_mode": "none", "ctor": draw(st.sampled_from(["from_origins", "dict"])), "extra": []}
        return c

    def fn_inf(c, case):
        check_case(c, case)
        c.record(case, True, "lattice:inferred_spacing_mixed_scales")

    ctx.drive(inferred(), ctx.n(12, 150), fn=fn_inf, salt=4)

    names = ["nz", "nz_collection", "italy_collection", "california_collection", "global2", "global1"]
    if ctx.tier == "thorough":
        names.append("global05")
    jits = [(0, 0), (1, 0), (-1, 0), (0, 1), (0, -1), (-1, -1), (1, 1)]
    jobs = [{"shipped": n, "jit": list(j)} for n in names for j in jits] + [{"shipped": n, "jit": [0, 0], "centre": True} for n in names]
    # keep all jobs of one region in one shard (region construction is the expensive part)
    for k, n in enumerate(names):
        if k % ctx.nshards != ctx.shard:
            continue
        for job in jobs:
            if job["shipped"] == n:
                ctx.check(job)
                ctx.record(job, True, "shipped")
        _SHIPPED_CACHE.pop(n, None)
    ctx.exhaustive["every bounding-box node (+1 cell margin) of %d shipped regions x 7 ulp jitters + cell centres" % len(names)] = True
