"""C07 - number tests report the exact tail probabilities of the forecast count law."""
import math
import os

import numpy
import scipy.stats
from hypothesis import strategies as st

from pbt import gridded as G
from pbt.core import call

PROP = "C07"
TECHNIQUE = "Hypothesis-generated (forecast total, observed count, NBD variance, catalog-size multisets) vs. independent tail sums (scipy sf/cdf cross-checked by math.fsum of the pmf); identities delta1+delta2=1+pmf and monotonicity in the mean"
RULE = ("(1 case in 3: forecast and catalog go through the M, S, CL, binary S tests before the number test, unjudged) one case = forecast whose total is 1e-6..1e5 (rates scaled to a drawn total, directly or through scale() histories) x observed count "
        "0..1e5 (around the mean +- a few sigma, 0, 1) for the Poisson N-test; the same with NBD variance mean*(1+10^u), u in [-3,4]; "
        "a multiset of synthetic-catalog sizes x observed count for the catalog N-test; plus an increasing sequence of means for monotonicity. "
        "Non-trivial = n_obs >= 1 with pmf(n_obs) > 1e-6 (the inclusive/exclusive choice is visible); distinct = canonical JSON.")
ASSUMPTIONS = ["tolerance 1e-9 + 1e-9*value: the implementation computes 1 - cdf, which is only absolutely accurate",
               "NBD: p = mean/var, r = mean^2/(var-mean), var > mean", "observed catalogs are built with n events in one cell (only the count matters)"]
SHARDS = {"quick": 8, "thorough": 16}
TOL = lambda v: 1e-9 + 1e-9 * abs(v)


def pois_tails(n, mu):
    d1 = float(scipy.stats.poisson.sf(n - 1, mu))
    d2 = float(scipy.stats.poisson.cdf(n, mu))
    return d1, d2


def pois_pmf(k, mu):
    return math.exp(k * math.log(mu) - mu - math.lgamma(k + 1)) if mu > 0 else (1.0 if k == 0 else 0.0)


def nb_pmf(k, r, p):
    return math.exp(math.lgamma(k + r) - math.lgamma(r) - math.lgamma(k + 1) + r * math.log(p) + k * math.log1p(-p))


def build(case):
    """forecast with the requested total + catalog with n events"""
    S = G.Setup(case["setup"])
    region = S.region()
    rates = S.rates / S.rates.sum() * case["mu"]
    fore = S.forecast(region, rates=rates)
    for f in case.get("scale_history", []):
        fore.scale(f)
    if case.get("array_scale"):
        # scale() documents "int, float, or ndarray": per-magnitude-bin or per-cell factors
        nc_, nm_ = rates.shape
        arr = numpy.array([[1.0 + 0.5 * (j % 3) for j in range(nm_)]]) if case["array_scale"] in ("row", "vec") else numpy.array([[0.5 + 0.25 * (i % 5)] for i in range(nc_)])
        # "vec": the per-magnitude factors as a plain 1-D vector (numpy broadcasting applies it along the magnitude axis, also when
        # the forecast happens to have as many cells as magnitude bins)
        fore.scale(arr[0] if case["array_scale"] == "vec" else arr)
    obs = [(0, 0)] * case["n"]
    cat = S.catalog(region, obs=obs)
    if case.get("below_min") and case["n"] <= 3000:
        # the observed catalog is not cut at the forecast's first magnitude edge: every third event lies below it.  n_obs is the
        # number of events in the observed catalog (the N-test does not grid the catalog)
        from csep.core.catalogs import CSEPCatalog
        evs = [list(S.event(i, 0, 0)) for i in range(case["n"])]
        for i in range(0, len(evs), 3):
            evs[i][5] = S.edges[0] - S.hm / 2
        cat = CSEPCatalog(data=[tuple(e) for e in evs], region=region, name="obs")
    return S, fore, cat


def check_case(ctx, case):
    from csep.core import poisson_evaluations as P, binomial_evaluations as Bn, catalog_evaluations as CE
    if case["k"] == "catalog":
        return check_catalog(ctx, case)
    S, fore, cat = build(case)
    n = case["n"]
    # expected mean from the case itself (rates scaled to case["mu"], last scale factor wins), never from the library
    hist = case.get("scale_history", [])
    mu = case["mu"] * (hist[-1] if hist else 1.0)
    if case.get("array_scale"):
        base = S.rates / S.rates.sum() * case["mu"]
        nc_, nm_ = base.shape
        arr = numpy.array([[1.0 + 0.5 * (j % 3) for j in range(nm_)]]) if case["array_scale"] in ("row", "vec") else numpy.array([[0.5 + 0.25 * (i % 5)] for i in range(nc_)])
        mu = math.fsum((base * arr).ravel().tolist())
        if numpy.ndim(fore.event_count) != 0:
            ctx.violation("forecast_total_not_a_scalar_after_array_scaling", {"shape": list(numpy.shape(fore.event_count))})
            return
    if case.get("other_tests_first") and n <= 3000:
        # the same forecast and catalog objects went through the other consistency tests first (one simulation each): they read
        # their arguments, so the number test that follows sees the catalog and the forecast as they were
        for other in (P.magnitude_test, P.spatial_test, P.conditional_likelihood_test, Bn.binary_spatial_test):
            call(other, fore, cat, num_simulations=1, seed=5)
        ctx.count("number_tests_after_the_other_tests_on_the_same_objects")
    got_mu = float(fore.event_count)
    if abs(got_mu - mu) > 1e-9 * mu:
        ctx.violation("forecast_total_wrong_after_scaling", {"got": got_mu, "want": mu, "history": hist})
        return
    if case["k"] == "poisson":
        o = call(P.number_test, fore, cat)
        if not o.ok:
            ctx.unexpected(o, "number_test")
            return
        d1, d2 = (float(x) for x in o.value.quantile)
        w1, w2 = pois_tails(n, mu)
        pmf = float(scipy.stats.poisson.pmf(n, mu))
        if n <= 2000 and mu < 5000:
            # independent cross-check of the oracle itself by direct summation
            s2 = math.fsum(pois_pmf(k, mu) for k in range(0, n + 1))
            if abs(s2 - w2) > 1e-9:
                raise AssertionError("oracle self-check failed: %r %r" % (s2, w2))
        name = "poisson"
    else:
        var = case["var_factor"] * mu
        o = call(Bn.negative_binomial_number_test, fore, cat, var)
        if not o.ok:
            ctx.unexpected(o, "negative_binomial_number_test")
            return
        d1, d2 = (float(x) for x in o.value.quantile)
        p = mu / var
        r = mu * mu / (var - mu)
        w1 = float(scipy.stats.nbinom.sf(n - 1, r, p))
        w2 = float(scipy.stats.nbinom.cdf(n, r, p))
        pmf = float(scipy.stats.nbinom.pmf(n, r, p))
        if n <= 2000 and r < 1e6:
            s2 = math.fsum(nb_pmf(k, r, p) for k in range(0, n + 1))
            if abs(s2 - w2) > 1e-7:
                ctx.count("oracle_selfcheck_loose")
        name = "nbd"
    if not G.close(d1, w1, TOL(w1)):
        ctx.violation(name + ":delta1_not_P_ge_n", {"n": n, "mu": mu, "got": d1, "want": w1, "exclusive_would_be": w1 - pmf})
    if not G.close(d2, w2, TOL(w2)):
        ctx.violation(name + ":delta2_not_P_le_n", {"n": n, "mu": mu, "got": d2, "want": w2})
    if abs(d1 + d2 - (1 + pmf)) > 3e-9:
        ctx.violation(name + ":sum_identity", {"n": n, "mu": mu, "d1": d1, "d2": d2, "pmf": pmf})
    if not (0 <= d1 <= 1 and 0 <= d2 <= 1):
        ctx.violation(name + ":out_of_unit_interval", {"d1": d1, "d2": d2})
    if o.value.observed_statistic != n:
        ctx.violation(name + ":observed_statistic_not_event_count", {"got": o.value.observed_statistic, "n": n})
    # monotone in the forecast mean (Poisson only: the Poisson family is stochastically increasing in its mean; the
    # NBD family at fixed variance is not, so no monotonicity is demanded there)
    if case["k"] != "poisson" or case.get("array_scale"):
        return
    prev = None
    for f in sorted(case.get("mean_factors", [])):
        fore.scale(f)
        o2 = call(P.number_test, fore, cat)
        if not o2.ok:
            ctx.unexpected(o2, name + "_scaled")
            break
        e1, e2 = (float(x) for x in o2.value.quantile)
        m2 = case["mu"] * f
        x1, x2 = pois_tails(n, m2)
        if not G.close(e1, x1, TOL(x1)) or not G.close(e2, x2, TOL(x2)):
            ctx.violation(name + ":wrong_after_scaling", {"factor": f, "mean": m2, "got": [e1, e2], "want": [x1, x2]})
            break
        if prev is not None and (e1 < prev[0] - 1e-12 or e2 > prev[1] + 1e-12):
            ctx.violation(name + ":not_monotone_in_mean", {"factors": case["mean_factors"], "prev": prev, "now": [e1, e2]})
            break
        prev = (e1, e2)


def check_catalog(ctx, case):
    from csep.core import catalog_evaluations as CE
    from csep.core.forecasts import CatalogForecast
    from fractions import Fraction
    S = G.Setup(case["setup"])
    region = S.region()
    sizes = case["sizes"]
    cats = [S.catalog(region, obs=[(0, 0)] * s, name="c") for s in sizes]
    cf = CatalogForecast(catalogs=cats, n_cat=len(cats), region=region, start_time=G.T0, end_time=G.T1, name="cf")
    n = case["n"]
    o = call(CE.number_test, cf, S.catalog(region, obs=[(0, 0)] * n), verbose=False)
    if not o.ok:
        ctx.unexpected(o, "catalog_number_test")
        return
    d1, d2 = (float(x) for x in o.value.quantile)
    J = len(sizes)
    w1 = float(Fraction(sum(1 for s in sizes if s >= n), J))
    w2 = float(Fraction(sum(1 for s in sizes if s <= n), J))
    if d1 != w1:
        ctx.violation("catalog:delta1_not_fraction_ge", {"sizes": sizes, "n": n, "got": d1, "want": w1})
    if d2 != w2:
        ctx.violation("catalog:delta2_not_fraction_le", {"sizes": sizes, "n": n, "got": d2, "want": w2})
    if list(o.value.test_distribution) != sizes or o.value.observed_statistic != n:
        ctx.violation("catalog:distribution_or_statistic_wrong", {"td": list(o.value.test_distribution)[:10], "obs": o.value.observed_statistic})
    # a second N-test on the same forecast object after its catalogs shrink (filters switched on): the distribution is that of
    # the catalogs the forecast yields now, not the remembered sizes of the first pass
    keepm = case.get("keep_every")
    if keepm:
        cats2 = [S.catalog(region, obs=[(0, 0 if (j % keepm) else S.nm - 1) for j in range(sz)], name="c") for sz in sizes]
        cf2 = CatalogForecast(catalogs=cats2, n_cat=len(cats2), region=region, start_time=G.T0, end_time=G.T1, name="cf")
        obs_cat = S.catalog(region, obs=[(0, S.nm - 1)] * n)
        o1 = call(CE.number_test, cf2, obs_cat, verbose=False)
        cf2.filters = ["magnitude >= %r" % S.edges[-1]]
        cf2.apply_filters = True
        o2 = call(CE.number_test, cf2, obs_cat, verbose=False)
        if S.nm >= 2 and o1.ok and o2.ok:
            want2 = [len([j for j in range(sz) if j % keepm == 0]) for sz in sizes]
            if list(o2.value.test_distribution) != want2:
                ctx.violation("catalog:second_test_uses_stale_sizes", {"first": list(o1.value.test_distribution)[:10], "second": list(o2.value.test_distribution)[:10], "want": want2[:10]})
            else:
                J2 = len(want2)
                if float(o2.value.quantile[0]) != float(Fraction(sum(1 for x in want2 if x >= n), J2)) or float(o2.value.quantile[1]) != float(Fraction(sum(1 for x in want2 if x <= n), J2)):
                    ctx.violation("catalog:second_test_quantile_wrong", {"got": list(o2.value.quantile)})
        elif not (o1.ok and o2.ok):
            ctx.unexpected(o1 if not o1.ok else o2, "catalog_number_test_twice")
        # the same catalogs streamed from a file with the filter configured at load time, catalogs kept in memory after the first
        # pass (store=True) or re-read (store=False): every N-test, first pass or later, sees the filtered sizes
        if S.nm >= 2:
            import csep
            from pbt import files
            from pbt.core import workdir
            want2 = [len([j for j in range(sz) if j % keepm == 0]) for sz in sizes]
            for store in (True, False):
                with workdir() as d:
                    p = os.path.join(d, "forecast.csv")
                    raw = [[S.event(i, k, m) for i, (k, m) in enumerate([(0, 0 if (j % keepm) else S.nm - 1) for j in range(sz)])] for sz in sizes]
                    files.write_catalog_forecast(p, raw, ["placeholder"] * len(raw), frac="us")
                    cf3 = call(lambda: csep.load_catalog_forecast(p, region=S.region(), start_time=G.T0, end_time=G.T1, name="cf", store=store,
                                                                 filters=["magnitude >= %r" % S.edges[-1]], apply_filters=True))
                    if not cf3.ok:
                        ctx.unexpected(cf3, "load_catalog_forecast")
                        continue
                    for which in ("first", "second", "third"):
                        o3 = call(CE.number_test, cf3.value, obs_cat, verbose=False)
                        if not o3.ok:
                            ctx.unexpected(o3, "catalog_number_test:file:%s_pass" % which)
                            break
                        if list(o3.value.test_distribution) != want2:
                            ctx.violation("catalog:file_forecast_filter_not_applied_on_%s_pass" % which,
                                          {"store": store, "got": list(o3.value.test_distribution)[:10], "want": want2[:10]})
                            break
                ctx.count("file_forecast_number_tests")


def nontrivial(case):
    if case["k"] == "catalog":
        return case["n"] in case["sizes"] and len(set(case["sizes"])) < len(case["sizes"])
    mu = case["mu"]
    for f in case.get("scale_history", [])[-1:]:
        mu *= f
    return case["n"] >= 1 and float(scipy.stats.poisson.pmf(case["n"], mu)) > 1e-6


@st.composite
def cases(draw):
    kind = draw(st.sampled_from(["poisson", "poisson", "nbd", "catalog"]))
    setup = draw(G.setups(max_cells=6, max_mags=3, max_events=0, lo=-3, hi=2))
    setup["rates"] = [r or 0.5 for r in setup["rates"]]
    if kind == "catalog":
        sizes = draw(st.lists(st.one_of(st.integers(0, 6), st.integers(0, 60)), min_size=1, max_size=25))
        n = draw(st.one_of(st.sampled_from(sizes), st.integers(0, 70)))
        return {"k": "catalog", "setup": setup, "sizes": sizes, "n": n, "keep_every": draw(st.sampled_from([0, 2, 3]))}
    mu = float("%.6g" % 10 ** draw(st.floats(-6, 5)))
    hist = draw(st.lists(st.floats(0.01, 100).map(lambda x: float("%.4g" % x)), max_size=3))
    eff = mu * (hist[-1] if hist else 1.0)
    sd = math.sqrt(eff)
    n = draw(st.one_of(st.sampled_from([0, 1, 2]), st.integers(-4, 4).map(lambda z: max(0, int(round(eff + z * sd)))),
                       st.integers(0, 200), st.just(max(0, int(eff)))))
    n = min(n, 100000)
    arr_scale = draw(st.sampled_from([None, None, None, "row", "col", "vec", "vec"]))
    if arr_scale:
        eff = mu   # the array factors are O(1); n is drawn around the unscaled mean, which is fine for the tails
    c = {"k": kind, "setup": setup, "mu": mu, "scale_history": hist, "n": n, "array_scale": arr_scale,
         "mean_factors": draw(st.lists(st.floats(0.2, 5).map(lambda x: float("%.3g" % x)), max_size=4, unique=True))}
    if kind == "nbd":
        c["var_factor"] = 1 + float("%.4g" % 10 ** draw(st.one_of(st.floats(-3, 4), st.floats(-6, -3))))      # down to var = mean (1 + 1e-6)
    if draw(st.integers(0, 3)) == 0:
        c["below_min"] = True
    if draw(st.integers(0, 2)) == 0:
        c["other_tests_first"] = True
    return c


def run(ctx):
    def fn(c, case):
        check_case(c, case)
        c.record(case, bool(nontrivial(case)), case["k"])

    ctx.drive(cases(), ctx.n(400, 4000), fn=fn, salt=1)
