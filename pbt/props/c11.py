"""C11 - gridded forecast files load into forecasts whose rate lookup matches the file."""
import datetime as D
import math
import os
import tempfile
from fractions import Fraction

import numpy
from hypothesis import strategies as st

from pbt import exact, files, gridded as G, lattice, quad
from pbt.core import call, workdir

PROP = "C11"
TECHNIQUE = "Hypothesis-generated forecast files (reference encoder) -> load -> lookups at constructed corner/centre/near-far-corner points compared with the file rows (round trip); scale / scale_to_test_date histories checked against 'original x last factor'"
RULE = ("(refused requests - explicit-bin griddings on the forecast's region, a lookup below the magnitude grid between two equal lookups - are made before / between the judged lookups, unjudged) one case = well-formed CSEP gridded ASCII file over a generated lattice (anchor, spacing, extent, holes, permuted cell order, 1..6 "
        "contiguous magnitude bins per cell, flags, lon/lat or lat/lon column order with swap_latlon, rates by repr) or a quadtree ASCII / CSV "
        "file over a generated prefix-free quadkey set; lookups at every row's lower corner, box centre, far corner minus 2 slack, and for "
        "each magnitude bin its lower edge, centre and (last bin) far above; plus a history of 0..5 scale / scale_to_test_date calls interleaved with read-only requests (sum, marginals, data, target_event_rates with and without scale=True). "
        "Non-trivial = file with >= 2 columns and >= 2 rows of cells, a hole or flag-0 cell, >= 2 magnitude bins and permuted cell order; "
        "distinct = canonical JSON.")
ASSUMPTIONS = ["files written by pbt/files.py from the format description in the load_ascii / quadtree loader docstrings",
               "cells of one file share one spacing; rows of a cell are contiguous with magnitude bins in increasing order (documented row order)",
               "lookup oracle = the list of rows; corner points use the exact containment oracle of C01 (slack rule) so that a point within slack below an edge may belong to either neighbour",
               "scale_to_test_date fraction recomputed with exact calendar arithmetic, relative tolerance 1e-12",
               "sums compared with relative tolerance 1e-12",
               "quadtree rows: the box of a row is the tile of its quadkey, bounds = the doubles of the standard Web-Mercator formula evaluated with libm (what the files carry; bit-identical to the library's bounds on all 21844 tiles of zoom 1..7), so exact corner lookups are decided by the file"]
SHARDS = {"quick": 8, "thorough": 16}
T0 = D.datetime(2010, 1, 1)
T1 = D.datetime(2015, 1, 1)


def exact_decimal_year(dt):
    a = D.datetime(dt.year, 1, 1)
    b = D.datetime(dt.year + 1, 1, 1)
    return dt.year + Fraction((dt - a) // D.timedelta(microseconds=1), (b - a) // D.timedelta(microseconds=1))


RT = [1e-12]  # relative tolerance of the current case (looser after a scale_to_test_date step, see apply_history)


def apply_history(ctx, fore, base, hist):
    """returns expected factor after the history"""
    factor = 1.0
    RT[0] = 1e-12
    for h in hist:
        if h[0] == "scale":
            fore.scale(h[1])
            factor = h[1]
        elif h[0] == "scale_array":
            # per-cell, per-magnitude-bin or full array of factors (broadcast against the rate array)
            nc_, nm_ = base.shape
            if h[1] == "row":
                arr = numpy.array([[1.0 + 0.25 * (j % 5) for j in range(nm_)]])
            elif h[1] == "col":
                arr = numpy.array([[0.5 + 0.125 * (i % 7)] for i in range(nc_)])
            else:
                arr = numpy.array([[0.25 * (1 + (3 * i + j) % 6) for j in range(nm_)] for i in range(nc_)])
            fore.scale(arr)
            factor = numpy.broadcast_to(arr, base.shape).copy()
            RT[0] = 1e-12
        elif h[0] == "read":
            # read-only requests between scalings (they must leave the forecast as it is)
            from csep.core.catalogs import CSEPCatalog
            org = fore.region.origins()[0]
            o = call(lambda: [fore.sum(), fore.spatial_counts(), fore.magnitude_counts(), fore.data,
                              fore.target_event_rates(CSEPCatalog(data=[("e", 0, float(fore.region.midpoints()[0][1]), float(fore.region.midpoints()[0][0]), 1.0,
                                                                        float(fore.magnitudes[0]))]), scale=bool(h[1]))])
            if not o.ok and not isinstance(o.exc, ValueError):   # the first cell may be flagged out: ValueError is the documented answer
                ctx.unexpected(o, "read_only_requests")
        else:
            t = T0 + D.timedelta(days=h[1])
            fore.scale_to_test_date(t)
            if T0 < t < T1:
                fr = (exact_decimal_year(t + D.timedelta(days=1)) - exact_decimal_year(T0)) / (exact_decimal_year(T1) - exact_decimal_year(T0))
                factor = float(fr)
                # the library forms the fraction from float decimal years (resolution ulp(2015) = 2.3e-13 yr):
                # absolute error of a few ulps on numerator and denominator
                RT[0] = 1e-12 + 8 * 2.3e-13 / (float(fr) * 5.0)
        if h[0] == "scale":
            RT[0] = 1e-12
    return factor


def FAC(factor, c, m):
    """the factor in force for cell c, magnitude bin m (scalar, or array after scale(<ndarray>))"""
    return float(factor[c, m]) if isinstance(factor, numpy.ndarray) else factor


def check_forecast_common(ctx, fore, base, hist, edges):
    """magnitudes, sums, marginals, scaling"""
    if [float(m) for m in fore.magnitudes] != [float(e) for e in edges]:
        ctx.violation("magnitudes_differ_from_file", {"got": [repr(m) for m in list(fore.magnitudes)[:6]], "want": edges[:6]})
        return False
    try:
        ok_type = all(isinstance(float(m), float) for m in fore.magnitudes) and numpy.asarray(fore.magnitudes).dtype.kind == "f"
    except Exception:
        ok_type = False
    if not ok_type:
        ctx.violation("magnitudes_not_numeric", {"dtype": str(numpy.asarray(fore.magnitudes).dtype)})
    factor = apply_history(ctx, fore, base, hist)
    od = call(lambda: numpy.asarray(fore.data, dtype=float))
    if not od.ok:
        ctx.unexpected(od, "data")
        return False
    data = od.value
    want = base * factor
    if data.shape != base.shape:
        ctx.violation("data_shape", {"got": list(data.shape), "want": list(base.shape)})
        return False
    if not numpy.allclose(data, want, rtol=RT[0], atol=0):
        ctx.violation("scaling_not_absolute_and_linear", {"history": hist, "factor_expected": factor if not isinstance(factor, numpy.ndarray) else "array",
                                                         "ratio_seen": float(data.ravel()[numpy.argmax(base.ravel())] / base.max()) if base.max() > 0 else None})
    if numpy.ndim(fore.sum()) != 0:
        ctx.violation("sum_is_not_a_scalar", {"shape": list(numpy.shape(fore.sum())), "history": hist})
        return False
    tot = float(fore.sum())
    wt = math.fsum(want.ravel().tolist())
    if abs(tot - wt) > (RT[0] + 1e-12) * max(abs(wt), 1e-300):
        ctx.violation("sum_differs_from_rate_column", {"got": tot, "want": wt})
    for name, f in (("spatial_counts", lambda: fore.spatial_counts()), ("magnitude_counts", lambda: fore.magnitude_counts())):
        o = call(f)
        if not o.ok:
            ctx.unexpected(o, name)
        elif abs(float(numpy.sum(o.value)) - tot) > 1e-12 * max(abs(tot), 1e-300):
            ctx.violation(name + "_do_not_sum_to_total", {"got": float(numpy.sum(o.value)), "total": tot})
    ec = fore.event_count
    if numpy.ndim(ec) != 0 or float(ec) != tot:
        ctx.violation("event_count_differs_from_sum", {"ndim": int(numpy.ndim(ec))})
    return factor


# ------------------------------------------------------------------ Cartesian files
def check_cart(ctx, case):
    import csep
    from csep.core.catalogs import CSEPCatalog
    L = lattice.Lattice(case["region"])
    edges = exact.decimal_grid(case["mags"]["start"], case["mags"]["step"], case["mags"]["n"])
    nm = len(edges)
    hm = float(case["mags"]["step"])
    nc = len(L.cells)
    rates = numpy.array(case["rates"], dtype=float).reshape(nc, nm)
    flags = L.flags
    org = L.origins()
    # upper bounds written to the file: the neighbouring origin float (as CSEP files do), computed like the origins
    rows = []
    for k, (i, j) in enumerate(L.cells):
        lon0, lat0 = float(org[k][0]), float(org[k][1])
        lon1, lat1 = L._coord(L.lon0, i + 1), L._coord(L.lat0, j + 1)
        for m in range(nm):
            m1 = edges[m + 1] if m + 1 < nm else 10.0
            rows.append((lon0, lon1, lat0, lat1, edges[m], m1, float(rates[k, m]), flags[k]))
    swap = case["swap"]
    with workdir() as d:
        p = os.path.join(d, "forecast.dat")
        files.write_gridded_ascii(p, rows, swap_latlon=swap)
        o = call(csep.load_gridded_forecast, p, start_date=T0, end_date=T1, swap_latlon=swap)
        if o.ok and case.get("second_load"):
            # another file on the same cells with a different magnitude grid, loaded afterwards in the same process: the first
            # forecast keeps its own magnitude edges and rates (nothing may be shared between the two)
            e2 = exact.decimal_grid("6.05", "0.3", nm + 1)
            rows2 = []
            for k, (i, j) in enumerate(L.cells):
                lon0, lat0 = float(org[k][0]), float(org[k][1])
                lon1, lat1 = L._coord(L.lon0, i + 1), L._coord(L.lat0, j + 1)
                for m in range(nm + 1):
                    rows2.append((lon0, lon1, lat0, lat1, e2[m], e2[m + 1] if m + 1 < nm + 1 else 12.0, 0.5 + k + m, flags[k]))
            p2 = os.path.join(d, "forecast_other_magnitudes.dat")
            files.write_gridded_ascii(p2, rows2, swap_latlon=swap)
            o2 = call(csep.load_gridded_forecast, p2, start_date=T0, end_date=T1, swap_latlon=swap)
            if not o2.ok:
                ctx.unexpected(o2, "load_gridded_forecast:second_file_same_cells")
            else:
                ctx.count("second_file_same_cells_loaded")
                if [float(x) for x in o2.value.magnitudes] != [float(x) for x in e2]:
                    ctx.violation("second_file_magnitudes_differ_from_file", {"got": [float(x) for x in o2.value.magnitudes][:5], "want": e2[:5]})
    if not o.ok:
        ctx.unexpected(o, "load_gridded_forecast")
        return
    fore = o.value
    region = fore.region
    if region.num_nodes != nc:
        ctx.violation("wrong_number_of_cells", {"got": region.num_nodes, "want": nc})
        return
    # every cell's polygon is the row's box (origin first), in file order
    for k, (i, j) in enumerate(L.cells):
        box = {(float(org[k][0]), float(org[k][1])), (float(org[k][0]), L._coord(L.lat0, j + 1)),
               (L._coord(L.lon0, i + 1), L._coord(L.lat0, j + 1)), (L._coord(L.lon0, i + 1), float(org[k][1]))}
        pts_k = region.polygons[k].points
        if tuple(float(t) for t in pts_k[0]) != (float(org[k][0]), float(org[k][1])) or {tuple(float(t) for t in q) for q in pts_k} != box:
            ctx.violation("cell_polygon_differs_from_file_box", {"cell": k, "got": [list(map(float, q)) for q in pts_k], "want": sorted(box)})
            break
    # the first row defines the inferred spacing
    inferred = float(rows[0][3] - rows[0][2])
    all_active = all(f == 1 for f in flags)
    base = rates.copy()
    factor = check_forecast_common(ctx, fore, base, case["history"], edges)
    if factor is False:
        return
    # a forecast holding whole expected counts in an INTEGER array on the same region: data = original x last factor holds for
    # fractional factors too (nothing is truncated to the stored dtype)
    from csep.core.forecasts import GriddedForecast
    ints = (numpy.arange(base.size).reshape(base.shape) % 7 + 1).astype(numpy.int64)
    gi = call(lambda: GriddedForecast(start_time=T0, end_time=T1, data=ints.copy(), region=region, magnitudes=numpy.array(edges)))
    if gi.ok:
        for fct in (0.5, 2.75, 1):
            osc = call(lambda: numpy.asarray(gi.value.scale(fct).data, dtype=float))
            if not osc.ok:
                ctx.unexpected(osc, "scale:integer_forecast")
                break
            if osc.value.shape != ints.shape or not numpy.allclose(osc.value, ints * fct, rtol=1e-12, atol=0):
                ctx.violation("integer_forecast_scaling_not_absolute_and_linear", {"factor": fct, "got_sum": float(osc.value.sum()), "want_sum": float(ints.sum() * fct)})
                break
        ctx.count("integer_forecasts_scaled")
    # spatial marginal laid out on the bounding-box grid: active cells hold their row sums, everything else is NaN
    o = call(lambda: fore.spatial_counts(cartesian=True))
    if not o.ok:
        ctx.unexpected(o, "spatial_counts_cartesian")
    else:
        g = numpy.asarray(o.value, dtype=float)
        fac = factor if isinstance(factor, numpy.ndarray) else numpy.full(base.shape, factor)
        rowsum = (base * fac).sum(axis=1)
        if g.shape != (L.ny, L.nx):
            ctx.violation("spatial_counts_cartesian_shape", {"got": list(g.shape), "want": [L.ny, L.nx]})
        else:
            for k, (i, j) in enumerate(L.cells):
                v = g[j - L.j0, i - L.i0]
                if flags[k] == 1 and not abs(v - rowsum[k]) <= (RT[0] + 1e-12) * abs(rowsum[k]):
                    ctx.violation("spatial_counts_cartesian_wrong", {"cell": k, "got": float(v), "want": float(rowsum[k])})
                    break
    # ---- lookups
    alt = L.with_spacing(float(region.dh)) if float(region.dh) != L.fdh else None
    if alt is not None:
        ctx.count("files_with_inferred_spacing_differing_from_decimal")
    pts = []  # (lon, lat, mag, cell k or None, bin m)
    mag_probes = []
    for m in range(nm):
        mag_probes += [(edges[m], m), (edges[m] + hm / 2, m)]
    mag_probes.append((edges[-1] + 25.0, nm - 1))
    for k, (i, j) in enumerate(L.cells):
        lon0, lat0 = float(org[k][0]), float(org[k][1])
        sx = exact.slack(lon0, i - L.i0 + 1, L.ex if len(L.ex) > 1 else [L.ex[0], L.ex[0] + L.fdh])
        sy = exact.slack(lat0, j - L.j0 + 1, L.ey if len(L.ey) > 1 else [L.ey[0], L.ey[0] + L.fdh])
        spots = [(lon0, lat0), (lon0 + L.fdh / 2, lat0 + L.fdh / 2), (L._coord(L.lon0, i + 1) - 2 * sx - 1e-9 * L.fdh, L._coord(L.lat0, j + 1) - 2 * sy - 1e-9 * L.fdh)]
        for si, (x, y) in enumerate(spots):
            mv, mb = mag_probes[(k + si) % len(mag_probes)]
            pts.append((x, y, mv, k, mb, si))
    # points in holes / outside
    for i in range(L.nx):
        for j in range(L.ny):
            if (i + L.i0, j + L.j0) not in L.index:
                pts.append((L.ex[i] + L.fdh / 2, L.ey[j] + L.fdh / 2, edges[0], None, 0, 1))
    pts.append((L.ex[0] - 3 * L.fdh, L.ey[0], edges[0], None, 0, 1))
    pts.append((L.ex[0], L.ey[-1] + 3 * L.fdh, edges[0], None, 0, 1))
    ctx.count("lookups", len(pts))
    # requests the library refuses, made on the forecast's region before the lookups (not judged): a catalog gridded with explicit
    # magnitude bins of its own, holding an event below them / outside the region
    if pts:
        x0, y0 = pts[0][0], pts[0][1]
        other_bins = numpy.array([float(e) + 0.37 * float(hm) for e in edges])
        for refused in (lambda: CSEPCatalog(data=[("low", 0, y0, x0, 1.0, float(edges[0]) - 1.0)], region=fore.region).spatial_magnitude_counts(mag_bins=other_bins),
                        lambda: CSEPCatalog(data=[("out", 0, L.ey[0] - 3.75, L.ex[0] - 7.25, 1.0, float(edges[0]))], region=fore.region).spatial_magnitude_counts(mag_bins=other_bins)):
            call(refused)
    good = []
    for (x, y, mv, k, mb, si) in pts:
        c1 = dict(case, only_point=[x, y, mv])
        active = k is not None and flags[k] == 1
        o = call(fore.get_rates, numpy.array([x]), numpy.array([y]), numpy.array([mv]))
        sure, cands = L.classify(x, y, True)

        def bucket(name, got_cell):
            """got_cell: None = rejected, an index, or a list of candidate source cells (rate values can coincide after array scaling)"""
            if alt is not None:
                s2, c2 = alt.classify(x, y, True)
                gl = got_cell if isinstance(got_cell, list) else [got_cell]
                if (got_cell is None and not s2) or (got_cell is not None and any(g in c2 for g in gl)):
                    return name + (":inferred_spacing_roundoff" if lattice.short_decimal(case["region"]) else ":inferred_nondecimal_spacing_roundoff")
            return name
        if o.ok:
            got = ctx.normalize("get_rates_one_point", lambda: float(numpy.asarray(o.value).reshape(1)[0]), c1)
            if got is None:
                continue
            if not cands:
                src = [c for c in range(nc) if abs(float(rates[c, mb]) * FAC(factor, c, mb) - got) <= RT[0] * abs(got)]
                ctx.violation(bucket("lookup_outside_region_returned_rate", src if src else -1),
                              {"pt": [x, y, mv], "got": got, "from_cell": src[:3], "region_dh": float(region.dh)}, c1)
                continue
            allowed = {float(rates[c, mb]) * FAC(factor, c, mb) for c in cands}
            if not any(abs(got - a) <= RT[0] * abs(a) for a in allowed):
                # which cell did it come from?
                src = [c for c in range(nc) if abs(float(rates[c, mb]) * FAC(factor, c, mb) - got) <= RT[0] * abs(got)]
                ctx.violation(bucket("lookup_returns_other_rows_rate", src if src else -1),
                              {"pt": [x, y, mv], "got": got, "want": sorted(allowed)[:3], "spot": ["lower_corner", "centre", "near_far_corner"][si],
                               "region_dh": float(region.dh), "from_cell": src[:3], "want_cell": sorted(cands)[:3]}, c1)
            elif active and sure:
                good.append((x, y, mv, float(rates[k, mb]) * FAC(factor, k, mb)))
        else:
            if not isinstance(o.exc, ValueError):
                ctx.unexpected(o, "get_rates", c1)
            elif sure:
                ctx.violation(bucket("lookup_inside_box_rejected", None), {"pt": [x, y, mv], "cell": k, "flag": flags[k] if k is not None else None,
                                                                             "region_dh": float(region.dh)}, c1)
    # ---- a lookup, a refused lookup of the same size (magnitude below the grid), the first lookup again: the same rates
    for gi in range(0, len(good), max(1, len(good) // 6)):
        x, y, mv, want = good[gi]
        args = (numpy.array([x]), numpy.array([y]), numpy.array([mv]))
        o1 = call(fore.get_rates, *args)
        xb, yb = good[(gi + 1 + len(good) // 2) % len(good)][:2]       # the refused point lies in another row's box (when there is one)
        call(fore.get_rates, numpy.array([xb]), numpy.array([yb]), numpy.array([float(edges[0]) - 1.0]))
        o2 = call(fore.get_rates, *args)
        ctx.count("lookups_repeated_after_a_refused_one")
        if not (o1.ok and o2.ok):
            ctx.unexpected(o1 if not o1.ok else o2, "get_rates:around_a_refused_lookup", dict(case, only_point=[x, y, mv]))
        elif ctx.normalize("get_rates:around_a_refused_lookup", lambda: (float(o1.value[0]), float(o2.value[0]))) is not None and \
                (abs(float(o2.value[0]) - want) > RT[0] * abs(want) or float(o1.value[0]) != float(o2.value[0])):
            ctx.violation("lookup_changes_after_a_refused_lookup", {"pt": [x, y, mv], "first": float(o1.value[0]), "again": float(o2.value[0]), "want": want},
                          dict(case, only_point=[x, y, mv]))
    # ---- vector lookup of all accepted probe points at once (points in arbitrary order)
    good = good[::-1][1::2] + good[::-1][0::2]   # not in cell order
    if len(good) >= 2:
        o = call(fore.get_rates, numpy.array([g[0] for g in good]), numpy.array([g[1] for g in good]), numpy.array([g[2] for g in good]))
        if not o.ok:
            ctx.unexpected(o, "get_rates_vector")
        elif len(o.value) != len(good) or any(abs(float(a) - g[3]) > RT[0] * abs(g[3]) for a, g in zip(o.value, good)):
            ctx.violation("vector_lookup_differs_from_single_lookups", {"n": len(good)})
    # ---- target_event_rates on a catalog of accepted probe points
    if good:
        cat = CSEPCatalog(data=[("e%d" % i, i, g[1], g[0], 1.0, g[2]) for i, g in enumerate(good)])
        o = call(fore.target_event_rates, cat)
        if not o.ok:
            ctx.unexpected(o, "target_event_rates")
        else:
            r, tot = o.value
            if len(r) != len(good) or any(abs(float(a) - g[3]) > RT[0] * abs(g[3]) for a, g in zip(r, good)):
                ctx.violation("target_event_rates_wrong", {"n": len(good)})
            if abs(float(tot) - float(fore.sum())) > 1e-12 * abs(float(fore.sum())):
                ctx.violation("target_event_rates_total_wrong", {"got": float(tot), "want": float(fore.sum())})


# ------------------------------------------------------------------ quadtree files
def check_quad(ctx, case):
    from csep.core.forecasts import GriddedForecast
    from csep.utils import readers
    keys = case["keys"]
    edges = exact.decimal_grid(case["mags"]["start"], case["mags"]["step"], case["mags"]["n"])
    nm = len(edges)
    hm = float(case["mags"]["step"])
    rates = numpy.array(case["rates"], dtype=float).reshape(len(keys), nm)
    b = [quad.bounds(k) for k in keys]
    with workdir() as d:
        if case["k"] == "quad_ascii":
            p = os.path.join(d, "forecast.dat")
            rows = []
            for i, k in enumerate(keys):
                w, s, e, n = b[i]
                for m in range(nm):
                    rows.append((k, w, e, s, n, edges[m], edges[m + 1] if m + 1 < nm else 10.0, float(rates[i, m])))
            files.write_quadtree_ascii(p, rows)
            o = call(GriddedForecast.from_custom, readers.quadtree_ascii_loader, func_args=(p,), start_time=T0, end_time=T1)
        else:
            p = os.path.join(d, "forecast.csv")
            files.write_quadtree_csv(p, keys, edges, rates.tolist())
            o = call(GriddedForecast.from_custom, readers.quadtree_csv_loader, func_args=(p,), start_time=T0, end_time=T1)
    if not o.ok:
        ctx.unexpected(o, "load:" + case["k"])
        return
    fore = o.value
    if [str(k) for k in fore.region.quadkeys] != list(keys):
        ctx.violation("quadkeys_differ_from_file", {"got": [str(k) for k in fore.region.quadkeys][:5], "want": keys[:5]})
        return
    factor = check_forecast_common(ctx, fore, rates.copy(), case["history"], edges)
    if factor is False:
        return
    for i, k in enumerate(keys):
        w, s, e, n = b[i]
        m = i % nm
        # the row's box as written in the file (tile bounds = the doubles of the standard Web-Mercator formula, which the file
        # carries): interior, western edge, exact lower corner, one ulp inside the upper corner
        probes = ((w, (s + n) / 2, edges[m], m, ""), ((w + e) / 2, (s + n) / 2, edges[m] + hm / 2, m, ""), ((w + e) / 2, (s + n) / 2, edges[-1] + 25.0, nm - 1, ""),
                  (w, s, edges[m], m, ":lower_corner"), (numpy.nextafter(e, -numpy.inf), numpy.nextafter(n, -numpy.inf), edges[m], m, ":ulp_inside_upper_corner"))
        for (x, y, mv, mb, tag) in probes:
            x, y = float(x), float(y)
            o = call(fore.get_rates, numpy.array([x]), numpy.array([y]), numpy.array([mv]))
            c1 = dict(case, only_point=[x, y, mv])
            if not o.ok:
                ctx.unexpected(o, "get_rates:" + case["k"] + tag, c1)
                return
            want = float(rates[i, mb]) * FAC(factor, i, mb)
            if numpy.asarray(o.value).shape != (1,) or abs(float(o.value[0]) - want) > RT[0] * abs(want):
                ctx.violation("lookup_returns_other_rows_rate:" + case["k"] + tag, {"pt": [x, y, mv], "got": [float(v) for v in o.value], "want": want}, c1)
                return
    ctx.count("lookups", 5 * len(keys))


def check_case(ctx, case):
    if case["k"] == "cart":
        return check_cart(ctx, case)
    return check_quad(ctx, case)


def nontrivial(case):
    if case["k"] != "cart":
        return len(set(len(k) for k in case["keys"])) >= 2 and case["mags"]["n"] >= 2
    L = lattice.Lattice(case["region"])
    holes = len(L.cells) < L.nx * L.ny or any(f == 0 for f in L.flags)
    order = L.cells != sorted(L.cells)
    return L.nx >= 2 and L.ny >= 2 and holes and case["mags"]["n"] >= 2 and order


def histories():
    step = st.one_of(st.tuples(st.just("scale"), st.sampled_from([0.5, 2.0, 1.0, 0.1, 3.0, 1e-3, 7.25])),
                     st.tuples(st.just("date"), st.one_of(st.sampled_from([-10, 0, 1, 200, 365, 900, 1825, 1826, 3000]),
                                                          st.sampled_from([40, 58, 59, 761, 775, 788, 789, 790]),      # February (2010, and the leap year 2012)
                                                          st.integers(1, 1825))),
                     st.tuples(st.just("read"), st.sampled_from([0, 1])),
                     st.tuples(st.just("scale_array"), st.sampled_from(["row", "col", "full"])))
    return st.lists(step.map(list), max_size=5)


@st.composite
def cases(draw):
    kind = draw(st.sampled_from(["cart", "cart", "cart", "quad_ascii", "quad_csv"]))
    mc = {"start": draw(st.sampled_from(["4.95", "5.95", "2.5", "5.0", "4.0", "4.955", "3.125"])), "step": draw(st.sampled_from(["0.1", "0.2", "0.5", "1", "0.125", "0.025", "0.25"])), "n": draw(st.integers(1, 6))}
    if kind == "cart":
        rc = draw(lattice.lattices(max_n=8, flags=True))
        nc = len(rc["cells"])
        rates = draw(G.rate_arrays(nc * mc["n"], lo=-8, hi=2, distinct=True))
        # rates must be positive and pairwise distinct so that a wrong row is visible
        rates = [r if r > 0 else 1.5e-9 * (i + 1) for i, r in enumerate(rates)]
        return {"k": "cart", "region": rc, "mags": mc, "rates": rates, "swap": draw(st.booleans()), "history": draw(histories()),
                **({"second_load": True} if draw(st.integers(0, 3)) == 0 else {})}
    keys = quad.all_keys(draw(st.integers(1, 2)))
    out = []
    for k in keys:
        out += quad.children(k) if draw(st.integers(0, 3)) == 0 else [k]
    # deeper refinement of a few tiles (zoom 4..7: latitude edges that are not "round" in any sense)
    for _ in range(draw(st.integers(0, 3))):
        j = draw(st.integers(0, len(out) - 1))
        sub = [out[j]]
        for _ in range(draw(st.integers(1, 4))):
            sub = [c for k in sub for c in quad.children(k)]
            if len(sub) > 16:
                sub = sub[:3] + sub[-3:] + [draw(st.sampled_from(sub))]     # a few of them only (a partial grid is fine)
                sub = sorted(set(sub))
        out = out[:j] + sub + out[j + 1:]
    if draw(st.booleans()) and len(out) > 3:
        keep = draw(st.lists(st.booleans(), min_size=len(out), max_size=len(out)))
        out = [k for k, kp in zip(out, keep) if kp] or out[:2]
    if draw(st.booleans()):
        out = list(draw(st.permutations(out)))
    rates = draw(G.rate_arrays(len(out) * mc["n"], lo=-8, hi=2, distinct=True))
    rates = [r if r > 0 else 1.5e-9 * (i + 1) for i, r in enumerate(rates)]
    return {"k": kind, "keys": out, "mags": mc, "rates": rates, "history": draw(histories())}


def run(ctx):
    def fn(c, case):
        check_case(c, case)
        c.record(case, nontrivial(case), case["k"])

    ctx.drive(cases(), ctx.n(500, 4000), fn=fn, salt=1)
