"""C08 - paired T- and W-tests follow Rhoades et al. (2011) and are antisymmetric."""
import math

import numpy
from unittest import mock
import scipy.stats
from hypothesis import strategies as st

from pbt import gridded as G
from pbt.core import call

PROP = "C08"
TECHNIQUE = "Hypothesis-generated forecast pairs and catalogs vs. independent implementation of Rhoades et al. Eq. 17/18 and of the tie-corrected Wilcoxon signed-rank normal approximation (cross-checked with scipy.stats.wilcoxon); metamorphic swap / self-comparison relations; definedness"
RULE = ("one case = two positive-rate forecasts (rates 1e-8..1e2) on a common generated region x catalog of 2..80 in-region events with "
        "repeated cells and ties x alpha in (0,1) x scale on/off (half of the cases evaluate the same forecast objects against another catalog of the same size first); run through paired_t_test, w_test, binary_paired_t_test in both orders and "
        "A vs A. Non-trivial = >= 3 distinct log-rate differences and at least one tie; distinct = canonical JSON.")
ASSUMPTIONS = ["relative tolerance 1e-9 (+1e-12 absolute) on gains, statistics, intervals; p-values 1e-9 absolute",
               "scale=True divides rates and totals by the whole number of days between start and end (365 here)",
               "W-test generated with scale=False only (with scale=True the implementation combines scaled differences with unscaled totals; the property does not say which is meant)",
               "W-test: at least one log-rate difference differs from (N_A-N_B)/N (stated domain)",
               "only the installed numpy/scipy versions are exercised"]
SHARDS = {"quick": 8, "thorough": 16}


def rel(a, b, r=1e-9, ab=1e-12):
    if a == b:
        return True
    if any(math.isnan(x) or math.isinf(x) for x in (a, b)):
        return (math.isnan(a) and math.isnan(b))
    return abs(a - b) <= ab + r * max(abs(a), abs(b))


def t_oracle(d, n1, n2, alpha):
    N = len(d)
    sd_ = math.fsum(d)
    ig = (sd_ - (n1 - n2)) / N
    var = math.fsum(x * x for x in d) / (N - 1) - sd_ * sd_ / (N * N - N)
    std = math.sqrt(var) if var >= 0 else float("nan")
    t = ig / (std / math.sqrt(N)) if std else (float("nan") if ig == 0 else math.copysign(math.inf, ig))
    tc = float(scipy.stats.t.ppf(1 - alpha / 2, N - 1))
    half = tc * std / math.sqrt(N)
    return ig, var, t, tc, ig - half, ig + half


def w_oracle(x, m):
    d = [v - m for v in x if v - m != 0]
    n = len(d)
    order = sorted(range(n), key=lambda i: abs(d[i]))
    ranks = [0.0] * n
    i = 0
    ties = []
    while i < n:
        j = i
        while j + 1 < n and abs(d[order[j + 1]]) == abs(d[order[i]]):
            j += 1
        r = (i + j) / 2 + 1
        for k in range(i, j + 1):
            ranks[order[k]] = r
        if j > i:
            ties.append(j - i + 1)
        i = j + 1
    rp = math.fsum(r for r, v in zip(ranks, d) if v > 0)
    rm = math.fsum(r for r, v in zip(ranks, d) if v < 0)
    T = min(rp, rm)
    mn = n * (n + 1) * 0.25
    se = n * (n + 1) * (2 * n + 1) - 0.5 * sum(t * (t * t - 1) for t in ties)
    se = math.sqrt(se / 24)
    z = (T - mn) / se
    p = 2 * float(scipy.stats.norm.sf(abs(z)))
    return z, p, d


def check_case(ctx, case):
    from csep.core import poisson_evaluations as P, binomial_evaluations as Bn
    S = G.Setup(case)
    region = S.region()
    ra = S.rates
    rb = numpy.array(case["rates_b"], dtype=float).reshape(ra.shape)
    fa = S.forecast(region, name="A")
    fb = S.forecast(region, rates=rb, name="B")
    pre = case.get("prescale")
    if pre:
        # the forecasts carry their own scale factors (powers of two: exact), set through scale(): the tests work with the
        # scaled rates, whatever the per-day conversion of scale=True does on top
        fa.scale(float(pre[0]))
        fb.scale(float(pre[1]))
        ra = ra * float(pre[0])
        rb = rb * float(pre[1])
        ctx.count("cases_with_prescaled_forecasts")
    alpha = case["alpha"]
    scale = case["scale"]
    obs = S.obs
    N = len(obs)
    days = (G.T1 - G.T0).days
    k = 1.0 / days if scale else 1.0
    xa = [math.log(ra[c, m] * k) for c, m in obs]
    xb = [math.log(rb[c, m] * k) for c, m in obs]
    d = [a - b for a, b in zip(xa, xb)]
    na = math.fsum(ra.ravel().tolist()) * k
    nb = math.fsum(rb.ravel().tolist()) * k

    def cat():
        return S.catalog(region)

    # "warmup": the same forecast objects were evaluated against ANOTHER catalog first - as many events, each in the next cell and
    # magnitude bin - (1) a catalog built and released before the evaluation proper, (2) a catalog object that is then refilled with
    # the events of this case through its setter and used for the first evaluation.  Nothing of it may remain.
    refilled = []
    if case.get("warmup") and N:
        ctx.count("forecasts_evaluated_against_another_catalog_first")
        other = [((c + 1) % S.nc, (m + 1) % S.nm) for c, m in obs]

        def warm():
            oc = S.catalog(region, obs=other, name="other")
            for fn_ in (P.paired_t_test, P.w_test, Bn.binary_paired_t_test):
                with numpy.errstate(all="ignore"):
                    call(fn_, fa, fb, oc, scale=scale)
            return oc
        oc = warm()
        if case["warmup"] == 2:
            oc.catalog = cat().catalog
            refilled.append(oc)
        del oc

    MAXLOG = max([abs(math.log(float(x) * k)) for x in ra.ravel().tolist() + rb.ravel().tolist() if x > 0] + [1.0])
    # ---------------- paired T
    res = {}
    for tag, f1, f2, dd, n1, n2 in (("AB", fa, fb, d, na, nb), ("BA", fb, fa, [-v for v in d], nb, na), ("AA", fa, fa, [0.0] * N, na, na)):
        # AB by keyword, BA and AA positionally (documented order: forecast, benchmark, catalog, alpha, scale)
        o = call(P.paired_t_test, f1, f2, refilled[0] if refilled else cat(), alpha=alpha, scale=scale) if tag == "AB" else call(P.paired_t_test, f1, f2, cat(), alpha, scale)
        if not o.ok:
            ctx.unexpected(o, "paired_t_test")
            continue
        r = o.value
        res[tag] = r
        ig, var, t, tc, lo, hi = t_oracle(dd, n1, n2, alpha)
        got_ig = float(r.observed_statistic)
        gt, gtc = (float(v) for v in r.quantile)
        glo, ghi = (float(v) for v in r.test_distribution)
        # the gain is a difference of O(sum|d|, N) quantities: tolerance relative to those
        scale_ig = (math.fsum(abs(v) for v in dd) + abs(n1) + abs(n2)) / N
        if abs(got_ig - ig) > 1e-9 * scale_ig + 1e-12:
            ctx.violation("T:information_gain_wrong", {"order": tag, "got": got_ig, "want": ig})
        if tag == "AA":
            if abs(got_ig) > 1e-12 * (1 + abs(n1)):
                ctx.violation("T:self_comparison_gain_not_zero", {"got": got_ig})
            continue
        if not rel(gtc, tc):
            ctx.violation("T:critical_value_wrong", {"got": gtc, "want": tc, "alpha": alpha, "N": N})
        # statistic and interval only where the variance is well-conditioned (all-equal differences give 0/0)
        if var > 1e-6 * (1e-300 + math.fsum(v * v for v in dd) / max(N - 1, 1)):
            ctx.count("T_statistic_and_interval_compared")
            # each difference is a difference of two logs and carries their rounding (~eps |log rate|); when the differences
            # themselves are tiny (1e-9) that noise is what limits the statistic: tolerance relative to the spread of the differences
            rt = 1e-6 + 40 * 2.3e-16 * MAXLOG / math.sqrt(var)
            if not rel(gt, t, rt):
                ctx.violation("T:t_statistic_wrong", {"order": tag, "got": gt, "want": t, "rel_tol": rt})
            if not (rel(glo, lo, rt, 1e-9 * scale_ig) and rel(ghi, hi, rt, 1e-9 * scale_ig)):
                ctx.violation("T:interval_wrong", {"order": tag, "got": [glo, ghi], "want": [lo, hi]})
    if "AB" in res and "BA" in res:
        a, b = res["AB"], res["BA"]
        sc = (math.fsum(abs(v) for v in d) + abs(na) + abs(nb)) / N
        tol = 1e-9 * sc + 1e-12
        if abs(float(a.observed_statistic) + float(b.observed_statistic)) > tol:
            ctx.violation("T:swap_does_not_negate_gain", {"ab": float(a.observed_statistic), "ba": float(b.observed_statistic)})
        ta, tb = float(a.quantile[0]), float(b.quantile[0])
        if not (math.isnan(ta) or math.isnan(tb) or math.isinf(ta)) and not rel(ta, -tb, 1e-6):
            ctx.violation("T:swap_does_not_negate_statistic", {"ab": ta, "ba": tb})
        la, ha = (float(v) for v in a.test_distribution)
        lb, hb = (float(v) for v in b.test_distribution)
        if not any(math.isnan(v) for v in (la, ha, lb, hb)) and not (rel(la, -hb, 1e-6, tol) and rel(ha, -lb, 1e-6, tol)):
            ctx.violation("T:swap_does_not_mirror_interval", {"ab": [la, ha], "ba": [lb, hb]})

    # ---------------- after scaled calls the forecast objects are as before: an unscaled T-test on the same objects
    if scale:
        o = call(P.paired_t_test, fa, fb, cat(), alpha=alpha, scale=False)
        if not o.ok:
            ctx.unexpected(o, "paired_t_test_unscaled_after_scaled")
        else:
            d1 = [math.log(ra[c, m]) - math.log(rb[c, m]) for c, m in obs]
            n1, n2 = math.fsum(ra.ravel().tolist()), math.fsum(rb.ravel().tolist())
            ig1 = (math.fsum(d1) - (n1 - n2)) / N
            sc1 = (math.fsum(abs(v) for v in d1) + abs(n1) + abs(n2)) / N
            if abs(float(o.value.observed_statistic) - ig1) > 1e-9 * sc1 + 1e-12:
                ctx.violation("T:scaled_call_left_the_forecast_scaled", {"got": float(o.value.observed_statistic), "want": ig1, "days": days})
    # ---------------- W (scale=False only, see ASSUMPTIONS)
    if not scale:
        m = (na - nb) / N
        if any(v - m != 0 for v in d):
            wres = {}
            for tag, f1, f2, dd, mm in (("AB", fa, fb, d, m), ("BA", fb, fa, [-v for v in d], -m)):
                # soft spy on the ranking routine: for near-tied data the ranks depend on the last bits of log(), so the oracle takes
                # the ranks the library itself used and checks that z and p are the Wilcoxon statistic OF THOSE RANKS
                seen_ranks = []
                real_rankdata = scipy.stats.rankdata

                def rank_spy(a, *aa, **kk):
                    r_ = real_rankdata(a, *aa, **kk)
                    seen_ranks.append((numpy.array(a, dtype=float).copy(), numpy.array(r_, dtype=float).copy()))
                    return r_
                with mock.patch.object(scipy.stats, "rankdata", rank_spy):
                    o = call(P.w_test, f1, f2, cat())
                if not o.ok:
                    ctx.unexpected(o, "w_test")
                    continue
                wres[tag] = o.value
                z, p, dz = w_oracle(dd, mm)
                gz, gp = float(o.value.observed_statistic), float(o.value.quantile)
                # values within rounding of the null median flip between "zero" and "tiny": skip those cases
                near = any(0 < abs(v - mm) < 1e-9 * (abs(v) + abs(mm) + 1e-300) for v in dd)
                # ties are decidable only between events of the same bin (identical inputs); |d| values of different bins
                # that agree to within rounding may or may not tie in the implementation
                ad = sorted((abs(v - mm), ob) for v, ob in zip(dd, obs) if v - mm != 0)

                def mirror(b1, b2):
                    # bins (i, j) with (A_i, B_i) == (B_j, A_j): log A_i - log B_i == -(log A_j - log B_j) bit for bit, whatever log() is used
                    return mm == 0 and float(ra[b1]) == float(rb[b2]) and float(rb[b1]) == float(ra[b2])
                near = near or any(b[0] - a[0] < 1e-9 * b[0] and a[1] != b[1] and not mirror(a[1], b[1]) for a, b in zip(ad, ad[1:]))
                if any(a[1] != b[1] and a[0] == b[0] and mirror(a[1], b[1]) for a, b in zip(ad, ad[1:])):
                    ctx.count("W_compared_with_mirrored_ties")
                near_null = any(0 < abs(v - mm) < 1e-9 * (abs(v) + abs(mm) + 1e-300) for v in dd)
                if near and not near_null and len(seen_ranks) == 1 and len(seen_ranks[0][1]) == len(dz) and all(v - mm != 0 for v in dd):
                    # near-tied |d|: which of them tie is the implementation's business, but the statistic must belong to the ranks
                    # it used (signs are unambiguous here, no difference is near the null median)
                    vals, rk = seen_ranks[0]
                    sg = [1 if v - mm > 0 else -1 for v in dd]
                    n_ = len(rk)
                    order_ok = all(not (abs(dd[i] - mm) < abs(dd[j] - mm) * (1 - 1e-9) and rk[i] >= rk[j]) for i in range(n_) for j in range(n_)) if n_ <= 60 else True
                    if not order_ok:
                        ctx.violation("W:ranks_inconsistent_with_differences", {"order": tag, "n": n_})
                    rp_ = math.fsum(float(rk[i]) for i in range(n_) if sg[i] > 0)
                    rm_ = math.fsum(float(rk[i]) for i in range(n_) if sg[i] < 0)
                    mult = {}
                    for x in rk.tolist():
                        mult[x] = mult.get(x, 0) + 1
                    var_ = (n_ * (n_ + 1) * (2 * n_ + 1) - 0.5 * sum(t * (t * t - 1) for t in mult.values())) / 24.0
                    if var_ > 0:
                        z_ = (min(rp_, rm_) - n_ * (n_ + 1) * 0.25) / math.sqrt(var_)
                        p_ = 2 * float(scipy.stats.norm.sf(abs(z_)))
                        ctx.count("W_near_tie_compared_through_the_library_ranks")
                        if not rel(gz, z_, 1e-9, 1e-9) or abs(gp - p_) > 1e-9:
                            ctx.violation("W:statistic_does_not_belong_to_the_ranks_used", {"order": tag, "got": [gz, gp], "want": [z_, p_], "n": n_,
                                                                                         "tie_groups": sorted(t for t in mult.values() if t > 1)})
                    continue
                if near:
                    # ranks (ties or not) then depend on the last bits of log(): not decidable by an independent oracle
                    ctx.count("skipped:W_near_tie_or_near_null_median")
                    continue
                ctx.count("W_compared")
                if any(v - mm == 0 for v in dd):
                    ctx.count("W_compared_with_differences_equal_to_null_median")
                if not rel(gz, z, 1e-9, 1e-9):
                    ctx.violation("W:z_wrong", {"order": tag, "got": gz, "want": z, "n": len(dz)})
                if abs(gp - p) > 1e-9 or not (0 <= gp <= 1):
                    ctx.violation("W:p_wrong", {"order": tag, "got": gp, "want": p})
                if len(dz) >= 1 and len(set(abs(v) for v in dz)) == len(dz):
                    # no ties: scipy's own implementation must agree with the oracle (oracle self-check)
                    sp = scipy.stats.wilcoxon(dz, correction=False, method="approx", zero_method="wilcox")
                    if abs(float(sp.pvalue) - p) > 1e-9:
                        raise AssertionError("W oracle self-check failed: %r %r" % (sp.pvalue, p))
            if len(wres) == 2:
                za, zb = float(wres["AB"].observed_statistic), float(wres["BA"].observed_statistic)
                pa, pb = float(wres["AB"].quantile), float(wres["BA"].quantile)
                if not rel(za, zb, 1e-9, 1e-9) or abs(pa - pb) > 1e-9:
                    ctx.violation("W:changed_by_swap", {"z": [za, zb], "p": [pa, pb]})

    # ---------------- binary paired T (per active bin)
    act = sorted(set(obs))
    o = call(Bn.binary_paired_t_test, fa, fb, cat(), alpha=alpha, scale=scale)
    if not o.ok:
        ctx.unexpected(o, "binary_paired_t_test")
    else:
        # "returns a result"; the gain over the active bins uses the unscaled bin rates
        Na = len(act)
        da = [math.log(ra[c, m2]) - math.log(rb[c, m2]) for c, m2 in act]
        want = (math.fsum(da) - (na - nb)) / Na
        got = float(o.value.observed_statistic)
        sc = (math.fsum(abs(v) for v in da) + abs(na) + abs(nb)) / Na
        if abs(got - want) > 1e-9 * sc + 1e-12:
            ctx.violation("binaryT:information_gain_wrong", {"got": got, "want": want, "n_active": Na})
        # variance, t statistic, critical value and interval: the same equations with N = number of active bins
        # (matrix_binary_t_test docstring: Rhoades et al. 2011 / Bayona et al. 2022, information gain per active bin)
        if Na >= 2:
            ig, var, t, tc, lo, hi = t_oracle(da, na, nb, alpha)
            gt, gtc = (float(v) for v in o.value.quantile)
            glo, ghi = (float(v) for v in o.value.test_distribution)
            if not rel(gtc, tc):
                ctx.violation("binaryT:critical_value_wrong", {"got": gtc, "want": tc, "n_active": Na})
            if var > 1e-6 * (1e-300 + math.fsum(v * v for v in da) / max(Na - 1, 1)):
                ctx.count("binaryT_statistic_and_interval_compared")
                rt_b = 1e-6 + 40 * 2.3e-16 * MAXLOG / math.sqrt(var)
                if not rel(gt, t, rt_b):
                    ctx.violation("binaryT:t_statistic_wrong", {"got": gt, "want": t, "n_active": Na, "rel_tol": rt_b})
                if not (rel(glo, lo, rt_b, 1e-9 * sc) and rel(ghi, hi, rt_b, 1e-9 * sc)):
                    ctx.violation("binaryT:interval_wrong", {"got": [glo, ghi], "want": [lo, hi]})
        o2 = call(Bn.binary_paired_t_test, fb, fa, cat(), alpha, scale)     # positionally
        if o2.ok and abs(float(o2.value.observed_statistic) + got) > 1e-9 * sc + 1e-12:
            ctx.violation("binaryT:swap_does_not_negate_gain", {"ab": got, "ba": float(o2.value.observed_statistic)})


def nontrivial(case):
    S = G.Setup(case)
    rb = numpy.array(case["rates_b"]).reshape(S.rates.shape)
    d = [round(math.log(S.rates[c, m]) - math.log(rb[c, m]), 12) for c, m in S.obs]
    return len(set(d)) >= 3 and len(set(d)) < len(d)


@st.composite
def cases(draw, max_events=80):
    c = draw(G.setups(max_cells=20, max_mags=4, max_events=max_events, lo=-8, hi=2))
    n = len(c["rates"])
    c["rates"] = [r if r > 0 else float("%.6g" % 10 ** draw(st.floats(-8, 2))) for r in c["rates"]]
    mode = draw(st.sampled_from(["indep", "perturbed", "scaled", "equal_totals", "equal_totals", "equal_totals_tiny_shifts"]))
    if mode in ("equal_totals", "equal_totals_tiny_shifts"):
        # dyadic rates (exact sums) and B = A with some pairs of bins swapped: totals are bit-equal, so the null median
        # (N_A - N_B)/N is exactly 0 and events in unswapped bins have a log-rate difference exactly equal to it
        c["rates"] = [draw(st.integers(1, 640)) / 64.0 for _ in range(n)]
        rb = list(c["rates"])
        for _ in range(draw(st.integers(1, max(1, n // 2)))):
            i, j = draw(st.integers(0, n - 1)), draw(st.integers(0, n - 1))
            rb[i], rb[j] = rb[j], rb[i]
    elif mode == "indep":
        rb = [float("%.6g" % 10 ** draw(st.floats(-8, 2))) for _ in range(n)]
    elif mode == "perturbed":
        rb = [float("%.6g" % (r * draw(st.sampled_from([1.0, 1.0, 2.0, 0.5, 1.1])))) for r in c["rates"]]
    else:
        f = draw(st.sampled_from([0.5, 2.0, 3.0]))
        rb = [r * f for r in c["rates"]]
    if mode == "equal_totals_tiny_shifts" and n >= 2:
        # on top of that, two bins differ by +-2^-30 (exact in binary, totals stay bit-equal, the null median stays exactly 0): their
        # log-rate differences are about 1e-10..1e-9 - tiny, well defined, not zero: they take part in the ranking like any other
        i, j = draw(st.integers(0, n - 1)), draw(st.integers(0, n - 1))
        if i != j:
            rb[i] += 2.0 ** -30
            rb[j] -= 2.0 ** -30
            c["obs"] = c["obs"] + [[i // c["mags"]["n"], i % c["mags"]["n"]], [j // c["mags"]["n"], j % c["mags"]["n"]]]
    c["rates_b"] = rb
    nc, nm = len(c["region"]["cells"]), c["mags"]["n"]
    target = draw(st.integers(2, 14))
    extra = draw(st.lists(st.tuples(st.integers(0, nc - 1), st.integers(0, nm - 1)).map(list), min_size=1, max_size=5))
    while len(c["obs"]) < target:
        c["obs"].append(list(draw(st.sampled_from(extra))))
    c["alpha"] = draw(st.sampled_from([0.05, 0.01, 0.1, 0.5, 0.001, 0.9]))
    c["scale"] = draw(st.booleans())
    if draw(st.integers(0, 11)) == 0:
        # more than 1000 target events: the observed (cell, bin) list repeated
        c["obs"] = c["obs"] * (1100 // len(c["obs"]) + 1)
    if draw(st.booleans()):
        c["warmup"] = draw(st.sampled_from([1, 1, 2]))
    if draw(st.integers(0, 2)) == 0:
        c["prescale"] = [draw(st.sampled_from([0.5, 2.0, 4.0])), draw(st.sampled_from([0.25, 1.0, 2.0]))]
    return c


def run(ctx):
    def fn(c, case):
        check_case(c, case)
        c.record(case, nontrivial(case), "pair")

    ctx.drive(cases(max_events=ctx.n(80, 300)), ctx.n(400, 3000), fn=fn, salt=1)
