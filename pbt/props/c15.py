"""C15 - time conversions exact to the millisecond, order-preserving."""
import datetime as D
from fractions import Fraction

import numpy
from hypothesis import strategies as st

from pbt.core import call

PROP = "C15"
TECHNIQUE = "exhaustive ms windows around second/day/year/epoch boundaries + Hypothesis-sampled instants vs. integer-arithmetic oracle (round trip + monotonicity)"
RULE = ("one case = a batch of instants: (a) complete windows of every integer ms around boundary instants "
        "(second, day, year, leap day, epoch sign) in 1900..2200, (b) Hypothesis-drawn batches of uniform integer ms, "
        "(c) batches of integer microsecond datetimes (naive / UTC-aware; also pandas.Timestamp and a datetime subclass), (d) batches of decimal years; each instant goes "
        "through epoch->datetime->epoch, datetime->epoch->datetime, string formats (with/without fraction, '+00:00'), "
        "decimal_year and its inverse, CSEPCatalog.get_datetimes; about half of the cases run under a non-UTC process time zone (TZ = "
        "UTC+5:30, US Pacific with DST, UTC-12, UTC+13 via time.tzset()). Non-trivial = batch contains an instant with non-zero ms "
        "part (for (d): a non-integer year); distinct = canonical JSON of the batch description.")
ASSUMPTIONS = ["range 1900-01-01..2200-01-01 UTC as stated by the property",
               "the conversions are defined in UTC: the process's local time zone must not change any result",
               "oracle: datetime(1970,1,1,tz=UTC) + timedelta(milliseconds=ms) (integer arithmetic in CPython's datetime)",
               "a datetime finer than 1 ms may map to floor or ceil of its exact ms value ('within one millisecond')",
               "decimal_year strictness is demanded for instants >= 1 ms apart (1 ms = 3e-11 yr >> ulp(2200) = 4.5e-13 yr)"]
SHARDS = {"quick": 8, "thorough": 16}

EPOCH = D.datetime(1970, 1, 1, tzinfo=D.timezone.utc)
MS = D.timedelta(milliseconds=1)
US = D.timedelta(microseconds=1)
LO = int((D.datetime(1900, 1, 1, tzinfo=D.timezone.utc) - EPOCH) // MS)
HI = int((D.datetime(2200, 1, 1, tzinfo=D.timezone.utc) - EPOCH) // MS)


class _OwnUTC(D.tzinfo):
    """a user-defined UTC tzinfo (as pytz / dateutil provide)"""

    def utcoffset(self, dt):
        return D.timedelta(0)

    def dst(self, dt):
        return D.timedelta(0)

    def tzname(self, dt):
        return "UTC"

    def __str__(self):
        return "UTC"

    def __repr__(self):
        return "UTC"


OWN_UTC = _OwnUTC()
try:
    import zoneinfo
    ZONEINFO_UTC = zoneinfo.ZoneInfo("UTC")
except Exception:  # noqa: BLE001 - no zone database
    ZONEINFO_UTC = None


class OwnDatetime(D.datetime):
    """a user's datetime subclass: is-a datetime"""


def ms_to_dt(ms):
    return EPOCH + D.timedelta(milliseconds=ms)


def us_to_dt(us):
    return EPOCH + D.timedelta(microseconds=us)


def exact_decimal_year(dt):
    y = dt.year
    a = D.datetime(y, 1, 1, tzinfo=D.timezone.utc)
    b = D.datetime(y + 1, 1, 1, tzinfo=D.timezone.utc)
    return y + Fraction((dt - a) // US, (b - a) // US)


def one(ms):
    return {"k": "ms", "ms": [ms]}


def check_ms(ctx, mss):
    """epoch <-> datetime <-> string for integer millisecond instants (sorted)."""
    from csep.utils import time_utils as T
    prev = None
    for ms in mss:
        want_dt = ms_to_dt(ms)
        o = call(T.epoch_time_to_utc_datetime, ms)
        if not o.ok:
            ctx.unexpected(o, "epoch_time_to_utc_datetime", one(ms))
            continue
        dt = o.value
        if not isinstance(dt, D.datetime) or dt.tzinfo is None:
            ctx.violation("epoch_to_datetime_not_an_aware_datetime", {"ms": ms, "got": repr(dt)}, one(ms))
            continue
        if dt != want_dt or dt.utcoffset() != D.timedelta(0):
            ctx.violation("epoch_to_datetime_wrong", {"ms": ms, "got": str(dt), "want": str(want_dt)}, one(ms))
        if prev is not None and dt < prev:
            ctx.violation("epoch_to_datetime_not_monotone", {"ms": ms}, one(ms))
        prev = dt
        # round trip on the library's own datetime
        o2 = call(T.datetime_to_utc_epoch, dt)
        if not o2.ok:
            ctx.unexpected(o2, "datetime_to_utc_epoch", one(ms))
        elif o2.value != ms:
            ctx.violation("epoch_roundtrip", {"ms": ms, "back": o2.value}, one(ms))
        # the oracle's datetime, naive and aware
        # (UTC-aware through datetime.timezone.utc, through an equal timezone object, through the IANA zone 'UTC', through a
        # user-defined tzinfo called UTC: all of them say 'UTC' with a zero offset)
        variants = [("aware", want_dt), ("naive", want_dt.replace(tzinfo=None))]
        if ms % 7 == 0:
            variants += [("aware_timezone_zero", want_dt.replace(tzinfo=D.timezone(D.timedelta(0)))), ("aware_own_tzinfo", want_dt.replace(tzinfo=OWN_UTC))]
            if ZONEINFO_UTC is not None:
                variants.append(("aware_zoneinfo", want_dt.replace(tzinfo=ZONEINFO_UTC)))
        if ms % 11 == 0:
            # the same instant as a datetime *subclass* instance (pandas.Timestamp is what a DataFrame column hands out)
            import pandas
            naive = want_dt.replace(tzinfo=None)
            variants += [("pandas_timestamp_naive", pandas.Timestamp(naive)), ("pandas_timestamp_utc", pandas.Timestamp(naive, tz="UTC")),
                         ("datetime_subclass_naive", OwnDatetime(*naive.timetuple()[:6], naive.microsecond)),
                         ("datetime_subclass_utc", OwnDatetime(*naive.timetuple()[:6], naive.microsecond, tzinfo=D.timezone.utc))]
            on = call(T.epoch_time_to_utc_datetime, numpy.int64(ms))      # the catalog's origin_time column holds numpy.int64
            if not on.ok:
                ctx.unexpected(on, "epoch_time_to_utc_datetime:numpy_int64", one(ms))
            elif on.value != want_dt:
                ctx.violation("epoch_to_datetime_wrong:numpy_int64", {"ms": ms, "got": str(on.value)}, one(ms))
        for tag, d in variants:
            o3 = call(T.datetime_to_utc_epoch, d)
            if not o3.ok:
                ctx.unexpected(o3, "datetime_to_utc_epoch_" + tag, one(ms))
            elif o3.value != ms:
                ctx.violation("datetime_to_epoch_wrong", {"ms": ms, "got": o3.value, "tz": tag}, one(ms))
            elif not isinstance(o3.value, int):
                ctx.violation("datetime_to_epoch_not_int", {"ms": ms, "type": type(o3.value).__name__}, one(ms))
        # datetime -> epoch -> datetime on a whole-ms datetime
        if o2.ok:
            o4 = call(T.epoch_time_to_utc_datetime, o2.value)
            if o4.ok and o4.value != want_dt:
                ctx.violation("datetime_roundtrip", {"ms": ms, "got": str(o4.value)}, one(ms))
        # strings
        base = want_dt.strftime("%Y-%m-%d %H:%M:%S")
        frac6 = "%06d" % want_dt.microsecond
        forms = [base + "." + frac6, base + "." + frac6[:3], base + "." + frac6 + "+00:00", base + "." + frac6[:3] + "+00:00"]
        if ms % 1000 == 0:
            forms += [base, base + "+00:00"]
        # every number of fraction digits that writes this instant exactly: .5, .25, .125, .1250, .12500
        stripped = frac6.rstrip("0")
        for nd in range(max(len(stripped), 1), 6):
            if nd not in (3, 6):
                forms += [base + "." + frac6[:nd], base + "." + frac6[:nd] + "+00:00"]
        for s in forms:
            o5 = call(T.strptime_to_utc_datetime, s)
            o6 = call(T.strptime_to_utc_epoch, s)
            ctx.count("strings")
            if not o5.ok:
                ctx.unexpected(o5, "strptime_to_utc_datetime", one(ms))
            elif o5.value != want_dt:
                ctx.violation("string_to_datetime_wrong", {"s": s, "got": str(o5.value)}, one(ms))
            if not o6.ok:
                ctx.unexpected(o6, "strptime_to_utc_epoch", one(ms))
            elif o6.value != ms:
                ctx.violation("string_to_epoch_wrong", {"s": s, "got": o6.value, "want": ms}, one(ms))
    ctx.count("ms_instants", len(mss))


def check_us(ctx, uss, aware):
    """datetimes at microsecond phase: within one ms, monotone."""
    from csep.utils import time_utils as T
    prev = None
    for us in uss:
        dt = us_to_dt(us)
        if not aware:
            dt = dt.replace(tzinfo=None)
        c1 = {"k": "us", "us": [us], "aware": aware}
        o = call(T.datetime_to_utc_epoch, dt)
        if not o.ok:
            ctx.unexpected(o, "datetime_to_utc_epoch", c1)
            continue
        lo = us // 1000
        hi = -((-us) // 1000)
        if not (lo <= o.value <= hi):
            kind = "datetime_to_epoch_wrong" if lo == hi else "datetime_to_epoch_beyond_1ms"
            ctx.violation(kind, {"us": us, "got": o.value, "allowed": [lo, hi]}, c1)
        if prev is not None and o.value < prev:
            ctx.violation("datetime_to_epoch_not_monotone", {"us": us, "got": o.value, "prev": prev}, c1)
        prev = o.value
        o2 = call(T.epoch_time_to_utc_datetime, o.value)
        if o2.ok and (not isinstance(o2.value, D.datetime) or o2.value.tzinfo is None):
            ctx.violation("epoch_to_datetime_not_an_aware_datetime", {"us": us, "got": repr(o2.value)}, c1)
        elif o2.ok and abs(o2.value - us_to_dt(us)) > MS:
            ctx.violation("datetime_roundtrip_beyond_1ms", {"us": us, "got": str(o2.value)}, c1)
    ctx.count("us_instants", len(uss))


def check_dy(ctx, uss):
    """decimal_year on sorted microsecond instants."""
    from csep.utils import time_utils as T
    prev = None
    for us in uss:
        dt = us_to_dt(us)
        c1 = {"k": "dy", "us": [us]}
        o = call(T.decimal_year, dt)
        if not o.ok:
            ctx.unexpected(o, "decimal_year", c1)
            continue
        dy = o.value
        ex = exact_decimal_year(dt)
        if abs(Fraction(dy) - ex) > Fraction(1, 10**10):  # 1e-10 yr = 3 ms; float resolution is 4.5e-13
            ctx.violation("decimal_year_wrong", {"us": us, "got": dy, "want": float(ex)}, c1)
        if dt.month == 1 and dt.day == 1 and us % 86400000000 == 0 and dy != dt.year:
            ctx.violation("decimal_year_jan1", {"us": us, "got": dy}, c1)
        if prev is not None:
            pus, pdy = prev
            if us - pus >= 1000 and not dy > pdy:
                ctx.violation("decimal_year_not_strictly_increasing", {"us": [pus, us], "dy": [pdy, dy]}, {"k": "dy", "us": [pus, us]})
            elif us > pus and dy < pdy:
                ctx.violation("decimal_year_decreasing", {"us": [pus, us], "dy": [pdy, dy]}, {"k": "dy", "us": [pus, us]})
        prev = (us, dy)
        o2 = call(T.decimal_year_to_utc_datetime, dy)
        if not o2.ok:
            ctx.unexpected(o2, "decimal_year_to_utc_datetime", c1)
        elif abs(o2.value - dt) > MS:
            ctx.violation("decimal_year_inverse_beyond_1ms", {"us": us, "dy": dy, "got": str(o2.value), "want": str(dt)}, c1)
        o3 = call(T.decimal_year_to_utc_epoch, dy)
        if not o3.ok:
            ctx.unexpected(o3, "decimal_year_to_utc_epoch", c1)
        elif abs(o3.value * 1000 - us) > 1000 + 999:  # epoch within 1 ms of an instant that is itself within 1 ms
            ctx.violation("decimal_year_epoch_beyond_1ms", {"us": us, "got": o3.value}, c1)
    ctx.count("dy_instants", len(uss))


def check_dyf(ctx, ys):
    """decimal years -> datetime: monotone, and decimal_year() of the result returns the input to 1 ms."""
    from csep.utils import time_utils as T
    prev = None
    for y in ys:
        c1 = {"k": "dyf", "y": [y]}
        o = call(T.decimal_year_to_utc_datetime, y)
        if not o.ok:
            ctx.unexpected(o, "decimal_year_to_utc_datetime", c1)
            continue
        dt = o.value
        if dt.utcoffset() != D.timedelta(0):
            ctx.violation("decimal_year_inverse_not_utc", {"y": y}, c1)
        ex = exact_decimal_year(dt)
        if abs(ex - Fraction(y)) > Fraction(1, 10**10):
            ctx.violation("decimal_year_inverse_wrong", {"y": y, "got": str(dt)}, c1)
        if prev is not None and y > prev[0] and dt < prev[1]:
            ctx.violation("decimal_year_inverse_not_monotone", {"y": [prev[0], y]}, {"k": "dyf", "y": [prev[0], y]})
        prev = (y, dt)
    ctx.count("dyf_values", len(ys))


def check_catalog(ctx, mss):
    """CSEPCatalog.get_datetimes / CatalogForecast.start_epoch agree with the same functions."""
    import csep
    from csep.core.catalogs import CSEPCatalog
    from csep.core.forecasts import CatalogForecast
    ev = [("e%d" % i, ms, 0.0, 0.0, 1.0, 5.0) for i, ms in enumerate(mss)]
    o = call(lambda: CSEPCatalog(data=ev).get_datetimes())
    if not o.ok:
        ctx.unexpected(o, "get_datetimes")
    else:
        for ms, dt in zip(mss, o.value):
            if dt != ms_to_dt(ms):
                ctx.violation("get_datetimes_wrong", {"ms": ms, "got": str(dt)}, {"k": "cat", "ms": [ms]})
    o = call(lambda: CSEPCatalog(data=ev))
    if o.ok and mss:
        if o.value.start_time != ms_to_dt(min(mss)) or o.value.end_time != ms_to_dt(max(mss)):
            ctx.violation("catalog_start_end_time_wrong", {"ms": [min(mss), max(mss)]}, {"k": "cat", "ms": [min(mss), max(mss)]})
    # one forecast object whose times are reassigned: the epochs follow the current datetimes
    f0 = call(lambda: CatalogForecast(catalogs=[CSEPCatalog(data=[])], n_cat=1, start_time=ms_to_dt(mss[0]), end_time=ms_to_dt(mss[0] + 1000)))
    if f0.ok:
        for ms in mss[:8]:
            _ = f0.value.start_epoch, f0.value.end_epoch
            f0.value.start_time = ms_to_dt(ms)
            f0.value.end_time = ms_to_dt(ms + 86400000)
            if f0.value.start_epoch != ms or f0.value.end_epoch != ms + 86400000:
                ctx.violation("forecast_epoch_stale_after_time_reassigned", {"ms": ms, "got": [f0.value.start_epoch, f0.value.end_epoch]}, {"k": "cat", "ms": [mss[0], ms]})
                break
    for ms in mss[:5]:
        f = call(lambda: CatalogForecast(catalogs=[CSEPCatalog(data=[])], n_cat=1, start_time=ms_to_dt(ms), end_time=ms_to_dt(ms + 86400000)))
        if not f.ok:
            ctx.unexpected(f, "CatalogForecast", {"k": "cat", "ms": [ms]})
            continue
        if f.value.start_epoch != ms or f.value.end_epoch != ms + 86400000:
            ctx.violation("forecast_start_epoch_wrong", {"ms": ms, "got": [f.value.start_epoch, f.value.end_epoch]}, {"k": "cat", "ms": [ms]})


from pbt.core import TZS  # noqa: E402


def check_case(ctx, case):
    # a case may carry "tz": core.Ctx.check runs it under that process time zone
    k = case["k"]
    if k == "ms":
        check_ms(ctx, sorted(case["ms"]))
    elif k == "window":
        c, h = case["center"], case["half"]
        check_ms(ctx, list(range(max(LO, c - h), min(HI, c + h) + 1)))
    elif k == "us":
        check_us(ctx, sorted(case["us"]), case["aware"])
    elif k == "dy":
        check_dy(ctx, sorted(case["us"]))
    elif k == "dyf":
        check_dyf(ctx, sorted(case["y"]))
    elif k == "cat":
        check_catalog(ctx, case["ms"])
    else:
        raise ValueError(k)


def boundaries(ctx):
    """Boundary instants (ms): epoch sign, year starts, leap days, day and second boundaries."""
    out = [0]
    utc = D.timezone.utc
    years = list(range(1900, 2201, ctx.n(10, 1))) + [1969, 1970, 1971, 1999, 2000, 2001, 2038, 2100, 2199]
    for y in sorted(set(years)):
        out.append(int((D.datetime(y, 1, 1, tzinfo=utc) - EPOCH) // MS))
    for y in (1904, 1968, 1972, 2000, 2024, 2096, 2104):
        out.append(int((D.datetime(y, 2, 29, tzinfo=utc) - EPOCH) // MS))
        out.append(int((D.datetime(y, 3, 1, tzinfo=utc) - EPOCH) // MS))
    out += [LO + 2000, HI - 2000, -1000, 1000, -86400000, 86400000, 2**31 * 1000, -2**31 * 1000, 2**32 * 1000]
    return sorted(set(out))


def tzd(draw, case):
    tz = draw(st.sampled_from(TZS))
    if tz:
        case["tz"] = tz
    return case


def run(ctx):
    half = ctx.n(1000, 2000)
    bs = boundaries(ctx)
    for i, b in enumerate(bs):
        if i % ctx.nshards != ctx.shard:
            continue
        case = {"k": "window", "center": b, "half": half}
        if TZS[i % len(TZS)]:
            case["tz"] = TZS[i % len(TZS)]
        ctx.check(case)
        ctx.record(case, True, "window")
    ctx.exhaustive["every ms within +-%d ms of %d boundary instants" % (half, len(bs))] = True

    ms_st = st.integers(LO, HI - 1)
    nb = ctx.n(250, 2000)

    def batch_ms(draw):
        base = draw(st.lists(ms_st, min_size=nb, max_size=nb))
        return tzd(draw, {"k": "ms", "ms": base})

    def rec(label):
        def f(c, case):
            check_case(c, case)
            key = "ms" if "ms" in case else ("us" if "us" in case else "y")
            vals = case[key]
            nt = any((v % 1000 != 0) if isinstance(v, int) else (v != int(v)) for v in vals)
            c.record({"k": case["k"], "n": len(vals), "first": vals[:5], **({"aware": case["aware"]} if "aware" in case else {}), **({"tz": case["tz"]} if "tz" in case else {})}
                     if len(vals) > 8 else case, nt, label)
        f.__name__ = label
        return f

    ctx.drive(st.composite(batch_ms)(), ctx.n(50, 600), fn=rec("sampled_ms"), salt=1)

    us_st = st.integers(LO * 1000, HI * 1000 - 1)

    def batch_us(draw):
        n = ctx.n(300, 2000)
        xs = draw(st.lists(us_st, min_size=n // 2, max_size=n // 2))
        # clusters straddling a millisecond boundary
        ys = []
        for x in xs[: n // 4]:
            m = (x // 1000) * 1000
            ys += [m - 1, m, m + 1, m + 999]
        return tzd(draw, {"k": "us", "us": xs + ys, "aware": draw(st.booleans())})

    ctx.drive(st.composite(batch_us)(), ctx.n(20, 200), fn=rec("sampled_us"), salt=2)

    def batch_dy(draw):
        n = ctx.n(100, 600)
        xs = draw(st.lists(us_st, min_size=n, max_size=n))
        ys = []
        for x in xs[: n // 3]:
            ys += [x + 1, x + 1000, x + 1001]
        # year boundaries +- small offsets
        yrs = draw(st.lists(st.integers(1900, 2199), min_size=5, max_size=5))
        for y in yrs:
            t = int((D.datetime(y + 1, 1, 1, tzinfo=D.timezone.utc) - EPOCH) // US)
            ys += [t - 1000000, t - 1000, t - 1, t, t + 1, t + 1000]
        return tzd(draw, {"k": "dy", "us": [v for v in xs + ys if LO * 1000 <= v < HI * 1000]})

    ctx.drive(st.composite(batch_dy)(), ctx.n(20, 200), fn=rec("sampled_decimal_year"), salt=3)

    def batch_dyf(draw):
        n = ctx.n(100, 600)
        ys = draw(st.lists(st.floats(1900, 2199.999), min_size=n, max_size=n))
        ys += [float(int(y)) for y in ys[:20]]
        return tzd(draw, {"k": "dyf", "y": ys})

    ctx.drive(st.composite(batch_dyf)(), ctx.n(10, 100), fn=rec("sampled_decimal_year_inverse"), salt=4)

    def batch_cat(draw):
        return tzd(draw, {"k": "cat", "ms": draw(st.lists(ms_st, min_size=1, max_size=40))})

    ctx.drive(st.composite(batch_cat)(), ctx.n(25, 300), fn=rec("catalog_and_forecast"), salt=5)
