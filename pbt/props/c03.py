"""C03 - gridding a catalog counts every event exactly once, in its own cell and bin."""
import numpy
from hypothesis import strategies as st

from pbt import exact, lattice, quad
from pbt.core import call

PROP = "C03"
TECHNIQUE = "Hypothesis-generated (region, magnitude grid, catalog) triples vs. naive exact reference gridding; conservation/marginal identities; negative cases (out-of-region / below-minimum events) must be rejected or left uncounted"
RULE = ("(mixed Cartesian cases also take one catalog object through refused gridding -> magnitude histogram -> filter to region and range -> gridding again) one case = region (Cartesian lattice with holes/mask flags/permuted cells, or quadtree: single resolution zoom 1..4 or a prefix-free "
        "partial quadkey set) x magnitude grid (decimal start/step, 1..8 bins; bound to the region or passed explicitly) x catalog (0..40 "
        "events placed by construction: cell lower-left corners, cell edges, interiors; magnitudes on bin edges, interiors, far above the last "
        "edge; duplicates; any order; 1 case in 16 repeats its event list 30x/100x; 1 in 3 passes a caller-supplied tol with events 0.3 tol "
        "below edges). Family 'f32_origins': lattice origins that went through single precision once, spacing given, events at 1/4, 1/2, 3/4 of their cells. Family 'in_domain': all events inside; family 'mixed': 1..3 events outside the region or below the first "
        "magnitude edge inserted at drawn positions. Non-trivial = >= 2 events in one cell-bin and >= 1 event on an edge (in_domain) / the bad "
        "event is not last (mixed); distinct = canonical JSON.")
ASSUMPTIONS = ["events of the in-domain family are constructed at offsets {0,1/4,1/2,3/4} of a cell (never within slack below an upper edge), so the reference gridding is unambiguous",
               "quadtree tile bounds recomputed by an independent Web-Mercator implementation; events are placed at tile interiors in latitude",
               "quadtree spatial_counts may either reject an out-of-region event or leave it uncounted (lookup returns matches only - pinned by tests)",
               "a space-magnitude region has magnitudes bound (region.magnitudes) or mag_bins passed"]
SHARDS = {"quick": 8, "thorough": 16}


# ------------------------------------------------------------------ region model
class CartModel:
    def __init__(self, rc):
        self.L = lattice.Lattice(rc)
        self.ctor = rc["ctor"]
        self.use_flags = self.ctor == "ctor_mask"
        self.n = len(self.L.cells)

    def build(self, mags):
        return self.L.build(self.ctor, magnitudes=mags)

    def cell_of(self, lon, lat):
        """index of the active cell containing the point unambiguously, -1 if surely outside, None if ambiguous"""
        sure, cands = self.L.classify(lon, lat, self.use_flags)
        if sure and len(cands) == 1:
            return next(iter(cands))
        if not cands:
            return -1
        return None


class QuadModel:
    def __init__(self, rc):
        self.keys = rc["keys"]
        self.n = len(self.keys)
        self.b = [quad.bounds(k) for k in self.keys]

    def build(self, mags):
        from csep.core.regions import QuadtreeGrid2D
        return QuadtreeGrid2D.from_quadkeys(list(self.keys), magnitudes=mags)

    def cell_of(self, lon, lat):
        hit = [i for i, (w, s, e, n) in enumerate(self.b) if w <= lon < e and s <= lat < n]
        # latitude bounds are transcendental: a point within 1e-9 deg of a horizontal tile line is ambiguous
        near = any(min(abs(lat - s), abs(lat - n)) < 1e-9 and w <= lon < e for (w, s, e, n) in self.b)
        if near:
            return None
        if len(hit) == 1:
            return hit[0]
        return -1 if not hit else None


def model_of(rc):
    return CartModel(rc) if rc["kind"] == "cart" else QuadModel(rc)


def mag_edges(mc):
    return exact.decimal_grid(mc["start"], mc["step"], mc["n"])


def mag_bin(edges, m):
    """unambiguous bin (open top), -1 below the first edge, None if within slack below an edge"""
    a = exact.admissible(edges, m, True)
    return next(iter(a)) if len(a) == 1 else None


# ------------------------------------------------------------------ quadtree regions refined from a catalog
def check_from_catalog(ctx, case):
    """Region = QuadtreeGrid2D.from_catalog(catalog, threshold, zoom), built after an unrelated grid was built in the same process.
    Its cells must be disjoint (an event lying in two cells cannot be 'counted exactly once'); the catalog it was refined from
    is then gridded on it and compared with containment in the independent tile bounds of the region's own quadkeys."""
    from csep.core.catalogs import CSEPCatalog
    from csep.core.regions import QuadtreeGrid2D
    pts = case["points"]
    edges = mag_edges(case["mags"])
    mags = numpy.array(edges)
    hf = float(case["mags"]["step"])
    ev = [("e%d" % i, 1000 * i, p[1], p[0], 5.0, edges[i % len(edges)] + (hf / 2 if i % 2 else 0.0)) for i, p in enumerate(pts)]

    def build():
        warm = CSEPCatalog(data=[("w%d" % i, i, 10.0 + i, 20.0 + 3 * i, 1.0, 5.0) for i in range(7)])
        QuadtreeGrid2D.from_catalog(warm, 2, zoom=4)                       # an earlier, unrelated grid
        return QuadtreeGrid2D.from_catalog(CSEPCatalog(data=list(ev)), case["threshold"], zoom=case["zoom"], magnitudes=mags)
    o = call(build)
    if not o.ok:
        ctx.unexpected(o, "from_catalog")
        return
    region = o.value
    keys = [str(k) for k in region.quadkeys]
    ks = sorted(keys)
    for a, b in zip(ks, ks[1:]):
        if b.startswith(a):
            ctx.violation("from_catalog_region_has_overlapping_cells", {"cell": a, "inside_or_equal": b, "n_cells": len(keys)})
            return
    b = [quad.bounds(k) for k in keys]
    cells = []
    for p in pts:
        hit = [i for i, (w, s_, e, n) in enumerate(b) if w <= p[0] < e and s_ <= p[1] < n]
        if len(hit) != 1 or any(min(abs(p[1] - s_), abs(p[1] - n)) < 1e-9 for (w, s_, e, n) in b):
            ctx.count("skipped:ambiguous_event")
            return
        cells.append(hit[0])
    E = numpy.zeros((len(keys), len(edges)))
    for i, k in enumerate(cells):
        E[k, i % len(edges)] += 1
    cat = CSEPCatalog(data=list(ev), region=region)
    for name, f, want in (("spatial_counts", cat.spatial_counts, E.sum(axis=1)), ("spatial_magnitude_counts", cat.spatial_magnitude_counts, E),
                          ("magnitude_counts", cat.magnitude_counts, E.sum(axis=0))):
        o = call(f)
        if not o.ok:
            ctx.unexpected(o, "from_catalog:" + name)
        elif numpy.asarray(o.value).shape != want.shape or not numpy.array_equal(numpy.asarray(o.value), want):
            ctx.violation("from_catalog:%s_wrong" % name, {"got_sum": float(numpy.sum(o.value)), "want_sum": float(want.sum()), "n_cells": len(keys)})


# ------------------------------------------------------------------ check
def check_f32_origins(ctx, case):
    """Lattice whose origins went through single precision once (grid read from a binary file and cast to double: -125.30000305 for
    -125.3), spacing given.  Every origin is within 4e-6 deg of its decimal, far less than half a cell, so the cells are the decimal
    ones for every event placed at least a quarter cell away from the cell boundaries: counted exactly once, in its own cell."""
    from csep.core.catalogs import CSEPCatalog
    L = lattice.Lattice(case["region"])
    edges = mag_edges(case["mags"])
    mags = numpy.array(edges)
    hm = float(case["mags"]["step"])
    o = call(lambda: L.build("from_origins", magnitudes=mags))
    if not o.ok:
        ctx.unexpected(o, "f32_origins:build")
        return
    region = o.value
    ev, want = [], numpy.zeros((len(L.cells), len(edges)))
    for i, (k, fx, fy, m) in enumerate(case["events"]):
        ci, cj = L.cells[k]
        lon = exact.fl(L.lon0 + ci * L.dh) + L.fdh * fx / 4
        lat = exact.fl(L.lat0 + cj * L.dh) + L.fdh * fy / 4
        ev.append(("e%d" % i, 1000 * i, lat, lon, 5.0, edges[m] + hm / 2))
        want[k, m] += 1
    ctx.count("f32_origin_lattices")
    lons, lats = numpy.array([e[3] for e in ev]), numpy.array([e[2] for e in ev])
    if ev:
        g = call(lambda: region.get_index_of(lons, lats))
        got = ctx.normalize("f32_origins:get_index_of", lambda: [int(x) for x in numpy.asarray(g.value).ravel()]) if g.ok else None
        if not g.ok:
            if isinstance(g.exc, ValueError):
                ctx.violation("f32_origins:interior_event_rejected", {"n_events": len(ev), "exc": repr(g.exc)[:120]})
            else:
                ctx.unexpected(g, "f32_origins:get_index_of")
        elif got is not None and got != [e[0] for e in case["events"]]:
            bad = next(i for i, (a, b) in enumerate(zip(got, [e[0] for e in case["events"]])) if a != b) if len(got) == len(ev) else -1
            ctx.violation("f32_origins:interior_event_in_another_cell", {"event": bad, "got": got[bad] if bad >= 0 else len(got), "want": case["events"][bad][0] if bad >= 0 else len(ev)})
    cat = CSEPCatalog(data=ev, region=region)
    for name, fn, ref in (("spatial_counts", lambda: cat.spatial_counts(), want.sum(axis=1)), ("spatial_magnitude_counts", lambda: cat.spatial_magnitude_counts(), want)):
        if not ev and name == "spatial_counts":
            pass
        c = call(fn)
        if not c.ok:
            if isinstance(c.exc, ValueError) and ev:
                ctx.violation("f32_origins:%s_rejects_interior_events" % name, {"n_events": len(ev), "exc": repr(c.exc)[:120]})
            elif ev:
                ctx.unexpected(c, "f32_origins:" + name)
            continue
        arr = ctx.normalize("f32_origins:" + name, lambda: numpy.asarray(c.value, dtype=float))
        if arr is None:
            continue
        if arr.shape != ref.shape or not numpy.array_equal(arr, ref):
            ctx.violation("f32_origins:%s_wrong" % name, {"got_total": float(arr.sum()) if arr.size else 0.0, "want_total": float(ref.sum()), "shape": list(arr.shape)})


def check_case(ctx, case):
    if case.get("family") == "f32_origins":
        return check_f32_origins(ctx, case)
    if case.get("family") == "quad_from_catalog":
        return check_from_catalog(ctx, case)
    from csep.core.catalogs import CSEPCatalog
    M = model_of(case["region"])
    edges = mag_edges(case["mags"])
    mags = numpy.array(edges)
    bound = case["mags"]["bound"]
    other = case["mags"].get("region_grid")   # region bound to a *different* grid while mag_bins is passed explicitly
    if other:
        o = call(M.build, numpy.array(exact.decimal_grid(other["start"], other["step"], other["n"])))
    else:
        o = call(M.build, mags if bound else None)
    if not o.ok:
        ctx.unexpected(o, "build_region")
        return
    region = o.value
    if not bound and not other:
        # region without its own magnitudes: mag_bins must be passed explicitly
        region.magnitudes = None
    ev = case["events"] * case.get("repeat", 1)      # "repeat": the same events many times over (large catalogs)
    n = len(ev)
    cells = [M.cell_of(e[0], e[1]) for e in ev]
    bins = [mag_bin(edges, e[2]) for e in ev]
    if any(c is None for c in cells) or any(b is None for b in bins):
        ctx.count("skipped:ambiguous_event")
        return
    outside = [i for i in range(n) if cells[i] == -1]
    below = [i for i in range(n) if bins[i] == -1]
    events = [("id%d" % i, 1000 * i, e[1], e[0], 5.0, e[2]) for i, e in enumerate(ev)]
    kw = {} if bound else {"mag_bins": mags}

    def cat():
        return CSEPCatalog(data=list(events), region=region)

    E = numpy.zeros((M.n, len(edges)))
    for i in range(n):
        if cells[i] >= 0 and bins[i] >= 0:
            E[cells[i], bins[i]] += 1
    want_mag = numpy.zeros(len(edges))
    for i in range(n):
        if bins[i] >= 0:
            want_mag[bins[i]] += 1
    want_sp = numpy.zeros(M.n)
    for i in range(n):
        if cells[i] >= 0:
            want_sp[cells[i]] += 1

    # ---- space-magnitude gridding
    o = call(lambda: cat().spatial_magnitude_counts(**kw))
    if outside or below:
        if o.ok:
            got = numpy.asarray(o.value)
            kind = "smc_accepted_out_of_region_event" if outside else "smc_accepted_below_minimum_event"
            if got.shape == E.shape and not numpy.array_equal(got, E):
                kind += ":counts_misplaced"
            ctx.violation(kind, {"outside": outside, "below": below, "sum": float(got.sum()), "n": n})
        elif not isinstance(o.exc, ValueError):
            ctx.unexpected(o, "spatial_magnitude_counts_mixed")
    else:
        if not o.ok:
            ctx.unexpected(o, "spatial_magnitude_counts")
        else:
            got = numpy.asarray(o.value)
            if got.shape != E.shape:
                ctx.violation("smc_shape", {"got": list(got.shape), "want": list(E.shape)})
            else:
                if not numpy.array_equal(got, E):
                    bad = numpy.argwhere(got != E)[:4].tolist()
                    ctx.violation("smc_wrong", {"at": bad, "got": [float(got[tuple(b)]) for b in bad], "want": [float(E[tuple(b)]) for b in bad]})
                if got.sum() != n:
                    ctx.violation("smc_total_not_event_count", {"sum": float(got.sum()), "n": n})
    # ---- the user's way out of a refusal, on ONE catalog object: gridding refused -> magnitude histogram (locations do not matter)
    # -> filter the catalog to the region and the magnitude range -> gridding again: exactly the in-domain events, each in its bin
    if (outside or below) and case["region"]["kind"] == "cart":
        c = cat()
        for refused in (lambda: c.spatial_magnitude_counts(**kw), lambda: c.spatial_counts(), lambda: c.spatial_event_probability()):
            call(refused)
        om = call(lambda: c.magnitude_counts(**kw))
        if not om.ok:
            ctx.unexpected(om, "magnitude_counts:after_refused_gridding")
        elif numpy.asarray(om.value).shape != want_mag.shape or not numpy.array_equal(numpy.asarray(om.value), want_mag):
            ctx.violation("magnitude_counts_wrong:after_refused_gridding", {"got": numpy.asarray(om.value).tolist()[:8], "want": want_mag.tolist()[:8]})
        of = call(lambda: (c.filter_spatial(region, in_place=True), c.filter("magnitude >= %r" % float(edges[0]), in_place=True)))
        if not of.ok:
            ctx.unexpected(of, "filter_to_region_and_magnitude_range:after_refused_gridding")
        else:
            o2 = call(lambda: c.spatial_magnitude_counts(**kw))
            ctx.count("gridding_refused_then_catalog_filtered_and_gridded_again")
            if not o2.ok:
                ctx.unexpected(o2, "spatial_magnitude_counts:after_refusal_and_filtering")
            elif numpy.asarray(o2.value).shape != E.shape or not numpy.array_equal(numpy.asarray(o2.value), E):
                ctx.violation("smc_wrong:after_refusal_and_filtering", {"got_sum": float(numpy.asarray(o2.value).sum()), "want_sum": float(E.sum())})
    # ---- magnitude histogram: below-minimum events uncounted (never wrapped into another bin)
    for name, f in (("magnitude_counts", lambda: cat().magnitude_counts(**kw)),):
        o = call(f)
        if not o.ok:
            ctx.unexpected(o, name)
        else:
            got = numpy.asarray(o.value)
            if got.shape != want_mag.shape or not numpy.array_equal(got, want_mag):
                kind = "magnitude_counts_counted_below_minimum_event" if below and (got.shape == want_mag.shape and got.sum() > want_mag.sum()) else "magnitude_counts_wrong"
                ctx.violation(kind, {"got": got.tolist(), "want": want_mag.tolist(), "below": below})
            ob = call(lambda: cat().magnitude_counts(retbins=True, **kw))
            if not ob.ok:
                ctx.unexpected(ob, "magnitude_counts_retbins")
            else:
                rb = ctx.normalize("magnitude_counts_retbins", lambda: ([float(x) for x in ob.value[0]], numpy.asarray(ob.value[1], dtype=float)))
                if rb is not None and (rb[0] != [float(e) for e in edges] or rb[1].shape != want_mag.shape or not numpy.array_equal(rb[1], want_mag)):
                    ctx.violation("magnitude_counts_retbins_differs", {"bins": rb[0][:6], "counts": rb[1].tolist()[:8], "want": want_mag.tolist()[:8]})
            if got.shape != want_mag.shape or not numpy.array_equal(got, want_mag):
                pass
            elif not outside and not below and o.ok:
                # marginal identity on the library's own arrays
                o2 = call(lambda: cat().spatial_magnitude_counts(**kw))
                if o2.ok and numpy.asarray(o2.value).shape == E.shape and not numpy.array_equal(numpy.asarray(o2.value).sum(axis=0), got):
                    ctx.violation("marginal_magnitude_mismatch", None)
    # ---- spatial counts / occupancy
    o = call(lambda: cat().spatial_counts())
    o3 = call(lambda: cat().spatial_event_probability())
    if outside:
        for name, oo, want in (("spatial_counts", o, want_sp), ("spatial_event_probability", o3, (want_sp > 0).astype(float))):
            if oo.ok:
                got = numpy.asarray(oo.value)
                if case["region"]["kind"] == "cart":
                    ctx.violation(name + "_accepted_out_of_region_event", {"outside": outside})
                elif got.shape != want.shape or not numpy.array_equal(got, want):
                    ctx.violation(name + "_misplaced_out_of_region_event", {"got_sum": float(got.sum()), "want_sum": float(want.sum())})
            elif not isinstance(oo.exc, ValueError):
                ctx.unexpected(oo, name + "_mixed")
    else:
        if not o.ok:
            ctx.unexpected(o, "spatial_counts")
        else:
            got = numpy.asarray(o.value)
            if got.shape != want_sp.shape or not numpy.array_equal(got, want_sp):
                ctx.violation("spatial_counts_wrong", {"got_sum": float(got.sum()), "want_sum": float(want_sp.sum())})
            if not below:
                o2 = call(lambda: cat().spatial_magnitude_counts(**kw))
                if o2.ok and numpy.asarray(o2.value).shape == E.shape and not numpy.array_equal(numpy.asarray(o2.value).sum(axis=1), got):
                    ctx.violation("marginal_spatial_mismatch", None)
        if not o3.ok:
            ctx.unexpected(o3, "spatial_event_probability")
        elif not numpy.array_equal(numpy.asarray(o3.value), (want_sp > 0).astype(float)):
            ctx.violation("occupancy_wrong", {"got_sum": float(numpy.sum(o3.value)), "want_sum": float((want_sp > 0).sum())})
    # ---- explicit bins must not change the region's own magnitude grid (state carried between calls)
    if other:
        own = exact.decimal_grid(other["start"], other["step"], other["n"])
        now = None if region.magnitudes is None else [float(x) for x in region.magnitudes]
        if now != own:
            ctx.violation("explicit_mag_bins_rebound_the_regions_grid", {"before": own[:4], "after": None if now is None else now[:4]})
        else:
            obins = [mag_bin(own, e[2]) for e in ev]
            if all(b is not None for b in obins):
                want_own = numpy.zeros(len(own))
                for b in obins:
                    if b >= 0:
                        want_own[b] += 1
                o = call(lambda: cat().magnitude_counts())
                if not o.ok:
                    ctx.unexpected(o, "magnitude_counts_region_bound_after_explicit")
                elif numpy.asarray(o.value).shape != want_own.shape or not numpy.array_equal(numpy.asarray(o.value), want_own):
                    ctx.violation("region_bound_magnitude_counts_wrong_after_explicit_call", {"got": numpy.asarray(o.value).tolist()[:8], "want": want_own.tolist()[:8]})
    # ---- caller-supplied tolerance: events a fraction of tol below an edge. Which of the two adjacent bins they land in is the
    # tolerance's business; the identities (total, marginal over space == magnitude histogram, region-bound == explicit bins) and
    # "every other event stays where it was" are not.
    tol = case.get("tol")
    if tol and n and not outside and not below and len(edges) >= 2 and (bound or not other):
        js = [j for j in case.get("tol_edges", []) if 1 <= j < len(edges)]
        tev = [("t%d" % q, 10 ** 6 + q, ev[0][1], ev[0][0], 5.0, edges[j] - tol * 0.3) for q, j in enumerate(js)]
        variants = [("explicit", {"mag_bins": mags, "tol": tol})] + ([("bound", {"tol": tol})] if bound else [])
        res = {}
        for vname, vkw in variants:
            c2 = CSEPCatalog(data=list(events) + tev, region=region)
            o1 = call(lambda: c2.spatial_magnitude_counts(**vkw))
            o2 = call(lambda: c2.magnitude_counts(**vkw))
            if not o1.ok or not o2.ok:
                ctx.unexpected(o1 if not o1.ok else o2, "counts_with_tol:" + vname)
                continue
            g1, g2 = numpy.asarray(o1.value), numpy.asarray(o2.value)
            res[vname] = (g1, g2)
            ctx.count("tol_variant:" + vname)
            if g1.shape != E.shape or g2.shape != want_mag.shape:
                ctx.violation("tol_shape", {"variant": vname})
                continue
            if g1.sum() != n + len(tev) or g2.sum() != n + len(tev):
                ctx.violation("tol_total_not_event_count", {"variant": vname, "smc": float(g1.sum()), "mc": float(g2.sum()), "n": n + len(tev)})
            if not numpy.array_equal(g1.sum(axis=0), g2):
                ctx.violation("tol_marginal_magnitude_mismatch", {"variant": vname, "smc_marginal": g1.sum(axis=0).tolist(), "mc": g2.tolist(), "tol": tol})
            # validity: histogram minus the tolerance-free reference = the tol events, each in bin j-1 or j
            rest = g2 - want_mag
            lo = numpy.zeros(len(edges))
            hi = numpy.zeros(len(edges))
            for j in js:
                hi[j] += 1
                hi[j - 1] += 1
            if numpy.any(rest < lo) or numpy.any(rest > hi) or rest.sum() != len(js):
                ctx.violation("tol_moved_other_events", {"variant": vname, "rest": rest.tolist(), "tol_edges": js})
        if len(res) == 2 and all(v[0].shape == E.shape for v in res.values()):
            if not numpy.array_equal(res["explicit"][0], res["bound"][0]) or not numpy.array_equal(res["explicit"][1], res["bound"][1]):
                ctx.violation("tol_region_bound_differs_from_explicit_bins", {"tol": tol, "explicit_mc": res["explicit"][1].tolist(), "bound_mc": res["bound"][1].tolist()})
    # ---- one more event exactly on the outer east / north boundary of a decimal lattice (the decimal coordinate lon0 + (i0+nx)*dh):
    # that boundary opens no cell, the event is outside and gridding must reject it - on every lattice, also where the float sum
    # last origin + dh lies an ulp above the decimal
    if case["region"]["kind"] == "cart" and not outside and not below and M.n >= 1:
        L = M.L
        k0 = sorted(L.active.values())[0] if M.use_flags and L.active else 0
        ci, cj = L.cells[k0]
        mid_lon, mid_lat = L._coord(L.lon0, ci) + L.fdh / 2, L._coord(L.lat0, cj) + L.fdh / 2
        for tag, (lon_, lat_) in (("east", (L._coord(L.lon0, L.i0 + L.nx), mid_lat)), ("north", (mid_lon, L._coord(L.lat0, L.j0 + L.ny)))):
            if M.cell_of(lon_, lat_) != -1:
                continue
            ev_edge = list(events) + [("edge", 10 ** 7, lat_, lon_, 5.0, edges[0] + (edges[1] - edges[0]) / 2 if len(edges) > 1 else edges[0] + 0.01)]
            for name in ("spatial_counts", "spatial_magnitude_counts"):
                c2 = CSEPCatalog(data=ev_edge, region=region)
                o = call(lambda: getattr(c2, name)(**(kw if name == "spatial_magnitude_counts" else {})))
                ctx.count("outer_edge_events")
                if o.ok:
                    ctx.violation("event_on_outer_%s_edge_counted:%s" % (tag, name), {"pt": [lon_, lat_], "sum": float(numpy.sum(o.value)), "n_inside": n},
                                  dict(case, events=[]))
                elif not isinstance(o.exc, ValueError):
                    ctx.unexpected(o, name + ":outer_edge_event")
    # ---- the same events in a catalog whose structured array stores coordinates and magnitudes in single precision (a legitimate
    # ndarray catalog): float32(5.1) is not 5.1, so no reference gridding here - only the identities the property states between the
    # library's own answers: total, marginals, and bin count == events kept by the equivalent magnitude-range filter
    if case.get("f4_columns") and n and not outside and not below:
        dt = numpy.dtype([("id", "S256"), ("origin_time", "<i8"), ("latitude", "<f4"), ("longitude", "<f4"), ("depth", "<f4"), ("magnitude", "<f4")])
        arr = numpy.array([(e[0].encode(), e[1], e[2], e[3], e[4], e[5]) for e in events], dtype=dt)

        def cat4():
            return CSEPCatalog(data=arr.copy(), region=region)
        o1 = call(lambda: cat4().spatial_magnitude_counts(**kw))
        o2 = call(lambda: cat4().magnitude_counts(**kw))
        o3 = call(lambda: cat4().spatial_counts())
        if o1.ok and o2.ok and o3.ok:
            ctx.count("single_precision_catalogs")
            g1, g2, g3 = numpy.asarray(o1.value), numpy.asarray(o2.value), numpy.asarray(o3.value)
            if g1.shape == E.shape and g2.shape == want_mag.shape:
                if g1.sum() != n or not numpy.array_equal(g1.sum(axis=0), g2) or not numpy.array_equal(g1.sum(axis=1), g3):
                    ctx.violation("f4_catalog:totals_or_marginals_inconsistent", {"smc_sum": float(g1.sum()), "n": n})
                for k in range(len(edges)):
                    st_ = ["magnitude >= %r" % edges[k]] + (["magnitude < %r" % edges[k + 1]] if k + 1 < len(edges) else [])
                    of = call(lambda: cat4().filter(st_, in_place=False).event_count)
                    if of.ok and of.value != int(g2[k]):
                        ctx.violation("f4_catalog:bin_count_differs_from_range_filter", {"k": k, "filter": st_, "filter_count": of.value, "bin_count": float(g2[k])})
                        break
        else:
            ctx.count("skipped:single_precision_catalog_rejected")     # float32 rounding may move an event across the region's border
    # ---- one extra event within round-off BELOW THE FIRST magnitude edge (the double just below it; with a caller-supplied tol, 0.3 tol
    # below it).  It may be taken into the first bin or be treated as below the minimum - but by every gridding alike: either
    # spatial_magnitude_counts counts it (then the magnitude histogram counts it too, in the same bin) or it rejects the catalog
    # (then the histogram leaves exactly that event uncounted)
    if n and not outside and not below and case.get("first_edge_roundoff"):
        for tolv in ([None] + ([case["tol"]] if case.get("tol") else [])):
            m_low = float(numpy.nextafter(edges[0], -numpy.inf)) if tolv is None else edges[0] - 0.3 * tolv
            ev_low = list(events) + [("low", 10 ** 7 + 1, ev[0][1], ev[0][0], 5.0, m_low)]
            tkw = dict(kw, **({"tol": tolv} if tolv is not None else {}))
            c4 = CSEPCatalog(data=ev_low, region=region)
            o1, o2 = call(lambda: c4.spatial_magnitude_counts(**tkw)), call(lambda: c4.magnitude_counts(**tkw))
            ctx.count("first_edge_roundoff_events")
            if not o2.ok:
                ctx.unexpected(o2, "magnitude_counts:event_within_roundoff_below_first_edge")
                continue
            g2 = numpy.asarray(o2.value)
            if o1.ok:
                g1 = numpy.asarray(o1.value)
                if g1.shape == E.shape and (g1.sum() != n + 1 or not numpy.array_equal(g1.sum(axis=0), g2)):
                    ctx.violation("first_edge_roundoff:histogram_differs_from_space_magnitude_marginal",
                                  {"tol": tolv, "m": m_low, "smc_marginal": g1.sum(axis=0).tolist(), "mc": g2.tolist(), "n": n + 1})
            elif isinstance(o1.exc, ValueError):
                if g2.shape == want_mag.shape and not numpy.array_equal(g2, want_mag):
                    ctx.violation("first_edge_roundoff:gridding_rejects_but_histogram_differs", {"tol": tolv, "m": m_low, "mc": g2.tolist(), "want": want_mag.tolist()})
            else:
                ctx.unexpected(o1, "spatial_magnitude_counts:event_within_roundoff_below_first_edge")
    # ---- the magnitude grid built the way users build it, numpy.arange(start, stop, step): its edges wander an ulp off the decimals, an
    # event ON a decimal edge is then within round-off of the arange edge and either bin is admissible - but ONE bin, the same
    # in every gridding of the catalog: total, marginal over space == magnitude histogram, explicit == region-bound
    if case.get("arange_edges") and n and not outside and not below and len(edges) >= 2 and case["region"]["kind"] == "cart":
        step_f = float(case["mags"]["step"])
        ar = numpy.arange(edges[0], edges[0] + step_f * (len(edges) - 0.5), step_f)
        if len(ar) == len(edges):
            reg_ar = call(M.build, ar)
            if reg_ar.ok:
                res = {}
                for vname, vkw, reg in (("explicit", {"mag_bins": ar}, region), ("bound", {}, reg_ar.value)):
                    c3 = CSEPCatalog(data=list(events), region=reg)
                    o1, o2 = call(lambda: c3.spatial_magnitude_counts(**vkw)), call(lambda: c3.magnitude_counts(**vkw))
                    if not (o1.ok and o2.ok):
                        ctx.unexpected(o1 if not o1.ok else o2, "counts_on_arange_edges:" + vname)
                        continue
                    g1, g2 = numpy.asarray(o1.value), numpy.asarray(o2.value)
                    res[vname] = (g1, g2)
                    ctx.count("arange_edge_grids:" + vname)
                    if g1.shape != E.shape or g2.shape != want_mag.shape:
                        ctx.violation("arange_edges:shape", {"variant": vname})
                    elif g1.sum() != n or g2.sum() != n or not numpy.array_equal(g1.sum(axis=0), g2):
                        ctx.violation("arange_edges:magnitude_histogram_differs_from_space_magnitude_marginal",
                                      {"variant": vname, "smc_marginal": g1.sum(axis=0).tolist(), "mc": g2.tolist(), "n": n})
                if len(res) == 2 and all(v[0].shape == E.shape for v in res.values()) and not numpy.array_equal(res["explicit"][1], res["bound"][1]):
                    ctx.violation("arange_edges:region_bound_differs_from_explicit_bins", {"explicit": res["explicit"][1].tolist(), "bound": res["bound"][1].tolist()})
    # ---- bin count == equivalent magnitude-range filter
    if n and not below:
        om = call(lambda: cat().magnitude_counts(**kw))
        if om.ok and numpy.asarray(om.value).shape == want_mag.shape:
            for k in range(len(edges)):
                st_ = ["magnitude >= %r" % edges[k]] + (["magnitude < %r" % edges[k + 1]] if k + 1 < len(edges) else [])
                def twice():
                    # the equivalent filter applied to ONE catalog object twice: first not in place, then in place
                    c_ = cat()
                    copy_ = c_.filter(st_, in_place=False)
                    first = copy_.event_count
                    # what is done to the returned catalog afterwards is not done to the original
                    copy_.filter("magnitude >= %r" % (edges[-1] + 1000.0), in_place=True)
                    if c_.event_count != n:
                        return ("original_changed_through_the_returned_catalog", c_.event_count)
                    second = c_.filter(st_, in_place=True).event_count
                    return first if first == second else (first, second)
                of = call(twice if k % 2 else (lambda: cat().filter(st_, in_place=False).event_count))
                if not of.ok:
                    ctx.unexpected(of, "filter")
                    break
                if of.value != int(om.value[k]):
                    ctx.violation("bin_count_differs_from_range_filter", {"k": k, "filter": st_, "filter_count": of.value, "bin_count": float(om.value[k])})
                    break


def nontrivial(case):
    ev = case["events"]
    if case["family"] == "mixed":
        return bool(case.get("bad_positions")) and max(case["bad_positions"]) < len(ev) - 1
    return len(ev) >= 2 and case.get("has_dup") and case.get("has_edge")


# ------------------------------------------------------------------ generation
@st.composite
def regions(draw, max_n=6):
    if draw(st.integers(0, 3)) > 0:
        rc = draw(lattice.lattices(max_n=max_n))
        rc["dh_mode"] = "decimal"
        rc["kind"] = "cart"
        rc["ctor"] = draw(st.sampled_from(["from_origins", "ctor_mask", "dict"]))
        if rc["ctor"] == "ctor_mask" and rc["flags"] and not any(rc["flags"]):
            rc["flags"][0] = 1
        return rc
    z = draw(st.integers(1, 3))
    keys = quad.all_keys(z)
    mode = draw(st.sampled_from(["single", "refined", "partial"]))
    if mode != "single":
        # refine some tiles (prefix-free by construction), optionally drop some
        out = []
        for k in keys:
            if draw(st.integers(0, 3)) == 0:
                out += quad.children(k)
            else:
                out.append(k)
        keys = out
        if mode == "partial" and len(keys) > 2:
            keep = draw(st.lists(st.booleans(), min_size=len(keys), max_size=len(keys)))
            keys = [k for k, b in zip(keys, keep) if b] or keys[:2]
        keys = list(draw(st.permutations(keys))) if draw(st.booleans()) else keys
    return {"kind": "quad", "keys": keys}


def place(M, rc, k, fx, fy):
    """a point at fractional offset (fx, fy) of cell k"""
    if rc["kind"] == "cart":
        L = M.L
        i, j = L.cells[k]
        x0, y0 = L._coord(L.lon0, i), L._coord(L.lat0, j)
        return (x0 if fx == 0 else x0 + fx * L.fdh, y0 if fy == 0 else y0 + fy * L.fdh)
    w, s, e, n = M.b[k]
    fy = fy or 0.5  # latitude bounds are not exact: stay inside
    return (w if fx == 0 else w + fx * (e - w), s + fy * (n - s))


@st.composite
def cases(draw, max_events=40):
    rc = draw(regions())
    M = model_of(rc)
    mc = {"start": draw(st.sampled_from(["4.95", "5.95", "2.5", "3", "0", "-1", "4.0", "2.45", "0.00001", "0.00005"])),
          "step": draw(st.sampled_from(["0.1", "0.2", "0.5", "1", "0.25", "0.3"])), "n": draw(st.integers(1, 8)),
          "bound": draw(st.booleans())}
    if not mc["bound"] and draw(st.booleans()):
        mc["region_grid"] = {"start": draw(st.sampled_from(["4.95", "5.95", "2.5", "3", "0", "4.0"])), "step": draw(st.sampled_from(["0.1", "0.5", "1"])),
                             "n": draw(st.integers(1, 8))}
    edges = mag_edges(mc)
    hf = float(mc["step"])
    if rc["kind"] == "cart":
        act = sorted(M.L.active.values()) if M.use_flags else list(range(M.n))
    else:
        act = list(range(M.n))
    n = draw(st.one_of(st.integers(0, 3), st.integers(0, max_events)))
    pool = draw(st.lists(st.tuples(st.sampled_from(act), st.sampled_from([0, 0, 0.25, 0.5, 0.75]), st.sampled_from([0, 0, 0.25, 0.5, 0.75]),
                                   st.integers(0, mc["n"] - 1), st.sampled_from(["edge", "edge", "mid", "above"])),
                         min_size=1, max_size=6)) if act else []
    ev = []
    has_edge = False
    for _ in range(n if pool else 0):
        k, fx, fy, b, cls = draw(st.sampled_from(pool))
        lon, lat = place(M, rc, k, fx, fy)
        m = edges[b] if cls == "edge" else (edges[b] + hf / 2 if cls == "mid" else edges[-1] + 3.5 * hf)
        has_edge = has_edge or cls == "edge" or fx == 0
        ev.append([lon, lat, m])
    # catalogs that arrive already ordered (by longitude, by magnitude, descending) or with all events distinct: data-dependent
    # shortcuts in the gridding must agree with the general path
    order = draw(st.sampled_from([None, None, None, "lon", "mag", "mag_desc", "lat_lon", "distinct"]))
    if order == "lon":
        ev.sort(key=lambda e: (e[0], e[1]))
    elif order == "lat_lon":
        ev.sort(key=lambda e: (e[1], e[0]))
    elif order == "mag":
        ev.sort(key=lambda e: e[2])
    elif order == "mag_desc":
        ev.sort(key=lambda e: -e[2])
    elif order == "distinct":
        ev = [list(t) for t in dict.fromkeys(tuple(e) for e in ev)]
    keyset = [tuple(e) for e in ev]
    case = {"family": "in_domain", "region": rc, "mags": mc, "events": ev, "has_dup": len(set(keyset)) < len(keyset), "has_edge": has_edge}
    if mc["n"] >= 2 and draw(st.integers(0, 2)) == 0:
        case["tol"] = draw(st.sampled_from([1e-8, 1e-6, 1e-4]))
        case["tol_edges"] = draw(st.lists(st.integers(1, mc["n"] - 1), min_size=1, max_size=3))
    if draw(st.integers(0, 15)) == 0:
        case["repeat"] = draw(st.sampled_from([30, 100]))
    if draw(st.integers(0, 4)) == 0:
        case["f4_columns"] = True
    if mc["n"] >= 2 and draw(st.integers(0, 3)) == 0:
        case["arange_edges"] = True
    if draw(st.integers(0, 2)) == 0:
        case["first_edge_roundoff"] = True
    if draw(st.booleans()):
        case["family"] = "mixed"
        pos = []
        for _ in range(draw(st.integers(1, 3))):
            kind = draw(st.sampled_from(["outside", "below", "below"]))
            base = list(draw(st.sampled_from(ev))) if ev else None
            if base is None:
                if not act:
                    continue
                lon, lat = place(M, rc, act[0], 0.5, 0.5)
                base = [lon, lat, edges[0] + hf / 2]
            if kind == "below":
                base[2] = edges[0] - draw(st.sampled_from([0.5, 1.5, 10])) * hf
            else:
                far = draw(st.sampled_from(["far", "hole", "pole"]))
                if rc["kind"] == "cart":
                    L = M.L
                    holes = [(i, j) for i in range(L.nx) for j in range(L.ny)
                             if ((i + L.i0, j + L.j0) not in (L.active if M.use_flags else L.index))]
                    if far == "hole" and holes:
                        i, j = draw(st.sampled_from(holes))
                        base[0], base[1] = L.ex[i] + L.fdh / 2, L.ey[j] + L.fdh / 2
                    else:
                        side = draw(st.sampled_from(["east", "west", "north", "south", "north", "south", "corner", "on_east_edge", "on_north_edge"]))
                        far_ = draw(st.sampled_from([0.5, 1.5, 7]))
                        if side == "on_east_edge":
                            base[0] = L._coord(L.lon0, L.i0 + L.nx)       # exactly the outer edge (the decimal coordinate): outside
                        if side == "on_north_edge":
                            base[1] = L._coord(L.lat0, L.j0 + L.ny)
                        if side in ("east", "corner"):
                            base[0] = L.ex[-1] + L.fdh + far_ * L.fdh
                        if side == "west":
                            base[0] = L.ex[0] - far_ * L.fdh
                        if side in ("north", "corner"):
                            base[1] = L.ey[-1] + L.fdh + far_ * L.fdh     # outside in latitude only: longitude stays inside a column
                        if side == "south":
                            base[1] = L.ey[0] - far_ * L.fdh
                else:
                    base[1] = draw(st.sampled_from([86.0, -86.0, 89.5]))
            p = draw(st.integers(0, len(ev)))
            ev.insert(p, base)
            pos = [q + 1 if q >= p else q for q in pos] + [p]
        case["bad_positions"] = sorted(pos)
    return case


@st.composite
def from_catalog_cases(draw):
    n = draw(st.integers(1, 40))
    centre = (draw(st.floats(-170, 170)), draw(st.floats(-70, 70)))
    pts = []
    for _ in range(n):
        if draw(st.booleans()):
            pts.append([centre[0] + draw(st.floats(-3, 3)), centre[1] + draw(st.floats(-3, 3))])      # a cluster
        else:
            pts.append([draw(st.floats(-180, 179.999)), draw(st.floats(-84, 84))])
    mc = {"start": draw(st.sampled_from(["4.95", "2.5", "4.0"])), "step": draw(st.sampled_from(["0.1", "0.5", "1"])), "n": draw(st.integers(1, 5))}
    return {"family": "quad_from_catalog", "points": pts, "threshold": draw(st.integers(1, 6)), "zoom": draw(st.integers(2, 7)), "mags": mc}


@st.composite
def f32_cases(draw):
    rc = draw(lattice.lattices(max_n=8, flags=False, spacings=["0.1", "0.05", "0.2", "0.25", "0.5", "1", "0.125", "0.01"]))
    rc["dh_mode"] = "decimal"
    rc["origin_mode"] = "f32"
    nc = len(rc["cells"])
    mc = {"start": draw(st.sampled_from(["4.95", "2.5", "4.0"])), "step": draw(st.sampled_from(["0.1", "0.5", "1"])), "n": draw(st.integers(1, 4))}
    ev = draw(st.lists(st.tuples(st.integers(0, nc - 1), st.integers(1, 3), st.integers(1, 3), st.integers(0, mc["n"] - 1)).map(list), max_size=30))
    if draw(st.booleans()):
        ev = ev + [[k, 2, 2, 0] for k in range(nc)]       # one event in the centre of every cell
    return {"family": "f32_origins", "region": rc, "mags": mc, "events": ev}


def run(ctx):
    def fn4(c, case):
        check_case(c, case)
        c.record(case, len(case["events"]) >= 2 and len(case["region"]["cells"]) >= 2, "f32_origins")

    ctx.drive(f32_cases(), ctx.n(60, 600), fn=fn4, salt=4)

    def fn(c, case):
        check_case(c, case)
        c.record(case, bool(nontrivial(case)), "%s:%s%s" % (case["family"], case["region"]["kind"], ":explicit_over_bound" if case["mags"].get("region_grid") else ""))

    def fn2(c, case):
        check_case(c, case)
        c.record(case, len(case["points"]) > case["threshold"], "quad_from_catalog")

    ctx.drive(from_catalog_cases(), ctx.n(40, 400), fn=fn2, salt=2)

    # one bin holding 66000 events (more than any 8- or 16-bit counter can hold): a generated in-domain case cut down to its first
    # event, repeated
    def to_huge(c):
        c = dict(c, events=c["events"][:1], repeat=66000, family="in_domain")
        c.pop("bad_positions", None)
        c.pop("tol", None)
        c.pop("f4_columns", None)
        return c
    huge = cases(max_events=3).filter(lambda c: c["family"] == "in_domain" and len(c["events"]) >= 1).map(to_huge)

    def fn3(c, case):
        check_case(c, case)
        c.record({k: v for k, v in case.items() if k != "region"} | {"region_kind": case["region"]["kind"]}, True, "huge_bin:" + case["region"]["kind"])

    ctx.drive(huge, ctx.n(1, 6), fn=fn3, salt=3)

    ctx.drive(cases(max_events=ctx.n(40, 120)), ctx.n(600, 5000), fn=fn, salt=1)
