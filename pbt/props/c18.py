"""C18 - evaluation results and regions survive serialization."""
import json
import math
import os
import tempfile

import numpy
from hypothesis import strategies as st

from pbt import gridded as G, lattice
from pbt.core import call

PROP = "C18"
TECHNIQUE = "results are produced by running every public evaluation on Hypothesis-generated inputs (incl. -inf, NaN, None statistics), then written with csep.write_json and reloaded with csep.load_evaluation_result and compared field by field (round trip); regions: to_dict -> JSON text -> from_dict compared by lookups on constructed probe points"
RULE = ("one case = generated gridded forecast pair + catalog + catalog forecast; every evaluation that can produce a result class is run "
        "(Poisson N, L, CL, S, M, T, W; NBD N; binary S, CL, T; Brier; catalog N, S, M, PL, resampled-M, MLL; calibration) and each result "
        "goes through write_json -> load_evaluation_result; or one Cartesian lattice (C01 generator; built by from_origins or, half of the cases, by the class constructor from explicit polygons) through to_dict -> json -> from_dict "
        "probed at its structured point set. Non-trivial = result with a non-finite or None field, or a catalog-test result class; "
        "distinct = canonical JSON.")
ASSUMPTIONS = ["numbers compared exactly (JSON repr round-trips doubles), NaN == NaN, tuples compared with lists element-wise",
               "non-numeric test distributions (the W-test's 'normal', the N-tests' ('poisson', mean)) are only required to load",
               "regions are unmasked (no mask flags), as the property states"]
SHARDS = {"quick": 8, "thorough": 16}


def norm(x):
    """comparable form of a statistic / quantile / name field"""
    if x is None or isinstance(x, str):
        return x
    if isinstance(x, (tuple, list, numpy.ndarray)):
        return [norm(v) for v in list(x)]
    if isinstance(x, (bool, numpy.bool_)):
        return bool(x)
    if isinstance(x, (int, numpy.integer)):
        return int(x)
    if isinstance(x, (float, numpy.floating)):
        x = float(x)
        return "nan" if math.isnan(x) else x
    return repr(x)


def numeric_list(td):
    try:
        seq = list(td)
    except TypeError:
        return None
    if isinstance(td, str):
        return None
    out = []
    for v in seq:
        if isinstance(v, (int, float, numpy.integer, numpy.floating)) and not isinstance(v, bool):
            out.append(norm(v))
        else:
            return None
    return out


REUSE = [0]
REUSED_DIR = os.path.join(tempfile.gettempdir(), "verif_c18_reused")


def roundtrip(ctx, tag, res):
    import csep
    # every other result of a case goes to ONE file name per process that is overwritten each time (a user's results.json): what is
    # loaded is what was written last
    REUSE[0] += 1
    with tempfile.TemporaryDirectory() as d:
        if REUSE[0] % 2:
            os.makedirs(REUSED_DIR, exist_ok=True)
            p = os.path.join(REUSED_DIR, "result_%d.json" % os.getpid())
            ctx.count("results_written_to_a_reused_file_name")
        else:
            p = os.path.join(d, "result.json")
        bare = REUSE[0] % 5 == 0
        if bare:
            # a bare file name, relative to the current working directory (as in the tutorials: write_json(result, 'n_test.json'))
            cwd = os.getcwd()
            os.chdir(d)
            p = "result_in_cwd.json"
            ctx.count("results_written_to_a_bare_file_name")
        try:
            o = call(csep.write_json, res, p)
            if not o.ok:
                ctx.unexpected(o, "write_json:" + tag + (":bare_file_name" if bare else ""))
                return
            o = call(csep.load_evaluation_result, p)
        finally:
            if bare:
                os.chdir(cwd)
        # (the reused file is left in place: the next result - longer or shorter - overwrites it)
    if not o.ok:
        ctx.unexpected(o, "load_evaluation_result:" + type(res).__name__)
        return
    got = o.value
    ctx.count("results_roundtripped")
    if type(got) is not type(res):
        ctx.violation("class_changed:" + type(res).__name__, {"got": type(got).__name__, "test": tag})
    for f in ("name", "status", "sim_name", "obs_name", "min_mw", "observed_statistic", "quantile"):
        a, b = norm(getattr(res, f)), norm(getattr(got, f))
        if a != b:
            ctx.violation("field_changed:%s" % f, {"test": tag, "before": repr(getattr(res, f))[:200], "after": repr(getattr(got, f))[:200],
                                                   "type_before": type(getattr(res, f)).__name__})
    # mixed distributions such as ('poisson', rate): the numeric members must come back as the same numbers
    try:
        seq0 = list(res.test_distribution) if not isinstance(res.test_distribution, str) else []
        seq1 = list(got.test_distribution) if not isinstance(got.test_distribution, str) else []
    except TypeError:
        seq0, seq1 = [], []
    if numeric_list(res.test_distribution) is None and seq0:
        for i, v in enumerate(seq0):
            if isinstance(v, (int, float, numpy.integer, numpy.floating)) and not isinstance(v, bool):
                if i >= len(seq1) or norm(seq1[i]) != norm(v):
                    ctx.violation("field_changed:test_distribution_numeric_member", {"test": tag, "before": repr(v), "after": repr(seq1[i]) if i < len(seq1) else None})
                    break
    a = numeric_list(res.test_distribution)
    if a is not None:
        b = numeric_list(got.test_distribution)
        if a != b:
            ctx.violation("field_changed:test_distribution", {"test": tag, "before": str(a)[:200], "after": str(b)[:200]})
    if any(v == "nan" or (isinstance(v, float) and math.isinf(v)) or v is None for v in (norm(res.observed_statistic) if isinstance(norm(res.observed_statistic), list) else [norm(res.observed_statistic)])):
        ctx.count("nonfinite_or_none_statistics")


# forecast / benchmark / catalog names written into the results
NAMES = {"ascii": ("A", "B", "obs"),
         "unicode": ("mod\u00e8le \u03a9-1", "Krak\u00f3w", "\u89b3\u6e2c catalog"),
         "punct": ('a "quoted", name', "back\\slash / slash", "tab\tand {brace}")}
# a C/POSIX locale without Python's UTF-8 mode: text files are ASCII unless an encoding is given
C_LOCALE = {"LC_ALL": "C", "LANG": "C", "PYTHONUTF8": "0", "PYTHONCOERCECLOCALE": "0"}


def check_case(ctx, case):
    if case["k"] == "region":
        return check_region(ctx, case)
    from csep.core import poisson_evaluations as P, binomial_evaluations as Bn, brier_evaluations as Br, catalog_evaluations as CE
    from csep.core.forecasts import CatalogForecast
    S = G.Setup(case["setup"])
    region = S.region()
    NA, NB, NC = NAMES[case.get("name_style", "ascii")]
    fa = S.forecast(region, name=NA)
    rb = numpy.array(case["rates_b"], dtype=float).reshape(S.rates.shape)
    fb = S.forecast(region, rates=rb, name=NB)

    def cat():
        return S.catalog(region, name=NC)

    n = len(S.obs)
    runs = [("poisson_N", lambda: P.number_test(fa, cat())),
            ("nbd_N", lambda: Bn.negative_binomial_number_test(fa, cat(), float(S.rates.sum()) * 3 + 1)),
            ("poisson_L", lambda: P.likelihood_test(fa, cat(), num_simulations=3, seed=1)),
            ("poisson_CL", lambda: P.conditional_likelihood_test(fa, cat(), num_simulations=3, seed=1)),
            ("poisson_S", lambda: P.spatial_test(fa, cat(), num_simulations=3, seed=1)),
            ("poisson_M", lambda: P.magnitude_test(fa, cat(), num_simulations=3, seed=1))]
    pos_a = bool((S.rates > 0).all())
    pos_b = bool((rb > 0).all())
    if n >= 2 and pos_a and pos_b:
        runs += [("paired_T", lambda: P.paired_t_test(fa, fb, cat())), ("W", lambda: P.w_test(fa, fb, cat())),
                 ("binary_T", lambda: Bn.binary_paired_t_test(fa, fb, cat()))]
    from pbt.props.c06 import reachable
    act_bins = sorted(set(S.obs))
    act_cells = sorted(set(k for k, m in S.obs))
    if reachable(S.rates.ravel().tolist(), len(act_bins)):
        runs.append(("binary_CL", lambda: Bn.binary_conditional_likelihood_test(fa, cat(), num_simulations=3, seed=1)))
        runs.append(("brier", lambda: Br.brier_score_test(fa, cat(), num_simulations=3, seed=1)))
    if reachable(S.rates.sum(axis=1).tolist(), len(act_cells)):
        runs.append(("binary_S", lambda: Bn.binary_spatial_test(fa, cat(), num_simulations=3, seed=1)))
    # catalog forecast
    cats = case["cats"]

    def cf():
        cs = [S.catalog(region, obs=[tuple(e) for e in c], name="c") for c in cats]
        return CatalogForecast(catalogs=cs, n_cat=len(cs), region=region, start_time=G.T0, end_time=G.T1, name="cf")

    runs += [("catalog_N", lambda: CE.number_test(cf(), cat(), verbose=False)), ("catalog_S", lambda: CE.spatial_test(cf(), cat(), verbose=False)),
             ("catalog_M", lambda: CE.magnitude_test(cf(), cat(), verbose=False)), ("catalog_PL", lambda: CE.pseudolikelihood_test(cf(), cat(), verbose=False))]
    if S.nm >= 2:
        runs += [("catalog_resampledM", lambda: CE.resampled_magnitude_test(cf(), cat(), seed=1)), ("catalog_MLL", lambda: CE.MLL_magnitude_test(cf(), cat(), seed=1))]
    # a forecast whose rate array is single precision: the numeric members of its N-test results are numpy.float32 scalars
    from csep.core.forecasts import GriddedForecast
    f32 = call(lambda: GriddedForecast(start_time=G.T0, end_time=G.T1, data=numpy.asarray(S.rates, dtype=numpy.float32), region=S.region(),
                                       magnitudes=numpy.array(S.edges), name=NA))
    if f32.ok:
        runs += [("poisson_N:float32_rates", lambda: P.number_test(f32.value, cat())),
                 ("nbd_N:float32_rates", lambda: Bn.negative_binomial_number_test(f32.value, cat(), float(S.rates.sum()) * 3 + 1))]
    produced = []
    for tag, f in runs:
        o = call(f)
        if not o.ok:
            # producing the result is other properties' subject; here only what was produced is serialised
            ctx.count("not_produced:" + tag)
            continue
        if o.value is None:
            ctx.count("no_result:" + tag)
            continue
        produced.append((tag, o.value))
        roundtrip(ctx, tag, o.value)
    valid = [r for t, r in produced if t.startswith("catalog_") and r.status != "not-valid"]
    if len(valid) >= 2:
        o = call(CE.calibration_test, valid)
        if o.ok:
            roundtrip(ctx, "calibration", o.value)


def check_region(ctx, case):
    check_region_1(ctx, case, "")
    if len(case["region"]["cells"]) >= 2:
        # a second region in the same process with the same name, spacing, cell count and extent but the cells in reverse
        # order: it must be rebuilt as itself
        check_region_1(ctx, dict(case, region=dict(case["region"], cells=list(reversed(case["region"]["cells"])))), ":second_region_same_extent")


def check_region_1(ctx, case, tag):
    from csep.core.regions import CartesianGrid2D
    L = lattice.Lattice(case["region"])
    if len(case["region"]["cells"]) % 2 and case["region"].get("dh_mode", "decimal") != "none":
        # the original built by the class constructor from explicit cell polygons (not by the factory that from_dict itself uses: a
        # region and its rebuilt twin that both went through the same factory agree with each other whatever the factory does)
        from csep.core.regions import compute_vertices
        from csep.models import Polygon
        ctx.count("regions_built_by_the_constructor")
        o = call(lambda: CartesianGrid2D([Polygon(b) for b in compute_vertices(L.origins(), L.given_dh)], L.given_dh))
    else:
        o = call(L.build, "from_origins", magnitudes=None)
    if not o.ok:
        ctx.unexpected(o, "build_region")
        return
    r1 = o.value
    o = call(lambda: CartesianGrid2D.from_dict(json.loads(json.dumps(r1.to_dict()))))
    if not o.ok:
        ctx.unexpected(o, "region_dict_roundtrip")
        return
    r2 = o.value
    if r2.num_nodes != r1.num_nodes:
        ctx.violation("region:num_nodes_changed" + tag, {"before": r1.num_nodes, "after": r2.num_nodes})
        return
    pts = L.probe_points(full_jitter=False)
    lons = numpy.array([p[0] for p in pts])
    lats = numpy.array([p[1] for p in pts])
    m1, m2 = r1.get_masked(lons, lats), r2.get_masked(lons, lats)
    if not numpy.array_equal(m1, m2):
        i = int(numpy.nonzero(m1 != m2)[0][0])
        ctx.violation("region:rebuilt_region_masks_differently" + tag, {"pt": list(pts[i]), "before": bool(m1[i]), "after": bool(m2[i]), "dh": [float(r1.dh), float(r2.dh)]})
        return
    keep = ~m1
    if keep.any():
        i1, i2 = r1.get_index_of(lons[keep], lats[keep]), r2.get_index_of(lons[keep], lats[keep])
        if not numpy.array_equal(i1, i2):
            j = int(numpy.nonzero(i1 != i2)[0][0])
            ctx.violation("region:rebuilt_region_indexes_differently" + tag, {"pt": [float(lons[keep][j]), float(lats[keep][j])], "before": int(i1[j]), "after": int(i2[j])})
    ctx.count("region_points", len(pts))


def nontrivial(case):
    return True


@st.composite
def cases(draw):
    if draw(st.integers(0, 3)) == 0:
        # decimal spacings and spacings that are not short decimals (1/12, 1/3, 1/16 of a degree)
        rc = draw(lattice.lattices(max_n=8, flags=False, spacings=lattice.SPACINGS + ["0.08333333333333333", "0.3333333333333333", "0.0625", "0.016666666666666666"]))
        return {"k": "region", "region": rc}
    setup = draw(G.setups(max_cells=10, max_mags=4, max_events=25, lo=-6, hi=2))
    n = len(setup["rates"])
    mode = draw(st.sampled_from(["positive", "positive", "with_zeros"]))
    if mode == "positive":
        setup["rates"] = [r if r > 0 else 0.01 * (i + 1) for i, r in enumerate(setup["rates"])]
    rates_b = [float("%.6g" % (max(r, 1e-6) * draw(st.sampled_from([0.5, 1.0, 2.0, 1.3])))) for r in setup["rates"]]
    nc, nm = len(setup["region"]["cells"]), setup["mags"]["n"]
    J = draw(st.integers(1, 6))
    used = draw(st.lists(st.integers(0, nc - 1), min_size=1, max_size=nc, unique=True))
    cats = [draw(st.lists(st.tuples(st.sampled_from(used), st.integers(0, nm - 1)).map(list), max_size=8)) for _ in range(J)]
    if not any(cats):
        cats[0] = [[used[0], 0]]
    style = draw(st.sampled_from(["ascii", "ascii", "unicode", "punct"]))
    return {"k": "results", "setup": setup, "rates_b": rates_b, "cats": cats, **({"name_style": style} if style != "ascii" else {})}


def run(ctx):
    # a handful of result cases with non-ASCII names replayed in a child interpreter started under the C locale without UTF-8 mode
    child = cases().filter(lambda c: c["k"] == "results").map(lambda c: dict(c, name_style="unicode", child_env=C_LOCALE))
    ctx.drive(child, ctx.n(2, 12), fn=lambda c, case: (check_case(c, case), c.record({"k": "results", "child_env": case.get("child_env"), "name_style": "unicode"}, True, "results:c_locale_child"))[0], salt=7)
    return _run(ctx)


def _run(ctx):
    def fn(c, case):
        check_case(c, case)
        c.record(case, True, case["k"])

    ctx.drive(cases(), ctx.n(150, 1500), fn=fn, salt=1)
