"""C13 - a catalog forecast is a stable, re-iterable collection (histories)."""
import itertools
import os
import tempfile

import numpy
from unittest import mock
from hypothesis import strategies as st

from pbt import files, gridded as G
from pbt.core import call, workdir

PROP = "C13"
TECHNIQUE = "model-based / stateful testing over operation histories: Hypothesis RuleBasedStateMachine + exhaustive enumeration of all operation sequences up to length 3 (thorough 4) on every configuration + Hypothesis-sampled longer sequences; invariants checked after every step against a reference list of filtered catalogs"
RULE = ("one case = small catalog forecast (1..6 synthetic catalogs, some empty, some events removed by the configured filters) x configuration "
        "{in-memory list (also handed over as a generator or a tuple), file loader store=True, file loader store=False} x {no filters, magnitude+time filters with apply_filters=True} x "
        "{filter_spatial off, on} x operation sequence over {iterate, get_event_counts, get_expected_rates, spatial_counts, magnitude_counts, "
        "number/spatial/magnitude/pseudolikelihood test, refused requests (tests with an observed event outside the region or an empty observation; none abandons a pass)}; after every operation: the pass yields the model's catalogs in order, n_cat and "
        "event counts are those of one pass, expected rates equal the model mean on every request, evaluation results equal those of a fresh "
        "forecast. Non-trivial = history with two complete passes of different kinds before a count/rate request on a filtered configuration; "
        "distinct = canonical JSON.")
ASSUMPTIONS = ["in-memory lists are given with n_cat=len(list) (required by an explicit assert in the iterator)",
               "only complete passes (the property speaks of complete passes)",
               "without filter_spatial / magnitude filter every event lies inside the region / above the first magnitude edge (otherwise gridding legitimately rejects)",
               "evaluation results of a history are compared with the same evaluation on a fresh forecast object (history independence); their absolute correctness is C10's subject"]
SHARDS = {"quick": 8, "thorough": 16}
OPS = ["iterate", "event_counts", "expected_rates", "spatial_counts", "magnitude_counts", "n_test", "s_test", "m_test", "pl_test", "refused"]
CONFIGS = [(src, flt, sp) for src in ("list", "file_store", "file_nostore") for flt in (False, True) for sp in (False, True)]
T_CUT = 1262304000000 + 5000  # events before this instant are removed by the time filter


class World:
    """builds the forecast of a case and the reference model"""

    def __init__(self, case, tmpdir):
        self.case = case
        self.S = G.Setup(case["setup"])
        self.src, self.flt, self.sp = case["config"]
        self.verbose = bool(case.get("verbose"))    # progress output on: same results
        self.tmpdir = tmpdir
        S = self.S
        # raw catalogs: entries [k, m, kind] kind: "in" | "outside" | "below" | "early"
        self.raw = []
        all_cats = case["cats"] * case.get("repeat", 1)      # "repeat": many synthetic catalogs
        for ci, cat in enumerate(all_cats):
            evs = []
            for j, (k, m, kind) in enumerate(cat):
                e = list(S.event(j, k, m))
                e[0] = "c%de%d" % (ci, j)
                e[1] = T_CUT + 1000 * (j + 1)
                if kind == "outside":
                    if (ci + j) % 2:
                        e[3] = S.L.ex[-1] + 5 * S.L.fdh  # lon beyond the bounding box
                    else:
                        e[2] = S.L.ey[-1] + 5 * S.L.fdh  # lat beyond the bounding box (longitude stays inside a column)
                elif kind == "below":
                    e[5] = S.edges[0] - S.hm / 2
                elif kind == "early":
                    e[1] = T_CUT - 1000 * (j + 1)
                evs.append(tuple(e))
            self.raw.append(evs)
        self.filters = ["magnitude >= %r" % S.edges[0], "origin_time >= %d" % T_CUT] if self.flt else []
        # reference model: filters applied exactly once
        self.model = []
        for ci, cat in enumerate(all_cats):
            keep = []
            for ev, (k, m, kind) in zip(self.raw[ci], cat):
                if self.flt and kind in ("below", "early"):
                    continue
                if self.sp and kind == "outside":
                    continue
                keep.append((ev, k, m))
            self.model.append(keep)
        self.n = len(self.model)
        self.mean = numpy.zeros((S.nc, S.nm))
        for cat in self.model:
            for _, k, m in cat:
                self.mean[k, m] += 1
        self.mean /= self.n
        self.path = None
        if self.src != "list":
            self.path = os.path.join(tmpdir, "forecast.csv")
            files.write_catalog_forecast(self.path, self.raw, ["omit" if i % 2 else "placeholder" for i in range(self.n)], header=bool(self.n % 2), frac="us")

    def forecast(self):
        import csep
        from csep.core.catalogs import CSEPCatalog
        from csep.core.forecasts import CatalogForecast
        region = self.S.region()
        kw = dict(region=region, filters=list(self.filters), apply_filters=bool(self.flt or self.sp), filter_spatial=self.sp,
                  start_time=G.T0, end_time=G.T1, name="cf")
        if self.src == "list":
            # the in-memory catalogs may come without a region, with the forecast's region object, or bound to another region
            # object (same cells listed in reverse order): the forecast's region decides where events are counted
            mode = self.case.get("cat_region", "same")
            if mode == "none":
                creg = None
            elif mode == "permuted" and len(self.S.L.cells) >= 2 and not self.sp:
                from pbt import lattice as _lat
                Lp = _lat.Lattice(dict(self.case["setup"]["region"], cells=list(reversed(self.case["setup"]["region"]["cells"]))))
                creg = Lp.build("from_origins", magnitudes=numpy.array(self.S.edges))
            else:
                creg = region
            cats = [CSEPCatalog(data=list(evs), catalog_id=i, region=creg) for i, evs in enumerate(self.raw)]
            # `catalogs` is documented as an iterable of catalogs: a list, a tuple, or a generator that is consumed (and, with the
            # default store=True, cached) during the first pass
            cont = self.case.get("cat_container", "list")
            given = tuple(cats) if cont == "tuple" else (c for c in list(cats)) if cont == "generator" else cats
            return CatalogForecast(catalogs=given, n_cat=len(cats), **kw)
        return csep.load_catalog_forecast(self.path, store=(self.src == "file_store"), **kw)

    def observation(self):
        obs = [(k, m) for k, m in self.S.obs]
        return self.S.catalog(self.S.region(), obs=obs)


class PassDidNotTerminate(Exception):
    pass


class LayoutMixUp(Exception):
    pass


def capped_next(cap):
    """CatalogForecast.__next__ with a call counter: an operation that advances the forecast more than `cap` times is cut off
    (a pass that never ends is decided by count, not by time)"""
    from csep.core.forecasts import CatalogForecast
    orig = CatalogForecast.__next__
    n = [0]

    def counted(self):
        n[0] += 1
        if n[0] > cap:
            raise PassDidNotTerminate("forecast advanced more than %d times in one operation" % cap)
        return orig(self)
    return counted


def rows(cat):
    out = []
    for r in cat.catalog.tolist():
        out.append((r[0].decode("utf-8", "backslashreplace") if isinstance(r[0], bytes) else str(r[0]),) + tuple(r[1:]))
    return out


def result_key(r):
    if r is None:
        return None
    td = r.test_distribution
    td = [float(x) for x in td] if td is not None and not isinstance(td, str) else td
    return (r.name, r.status, repr(r.observed_statistic), repr(tuple(r.quantile) if isinstance(r.quantile, (tuple, list)) else r.quantile), repr(td))


def run_op(W, fc, op):
    from csep.core import catalog_evaluations as CE
    if op == "iterate":
        out = []
        for c in fc:
            out.append((c.catalog_id, rows(c)))
            if len(out) > 20 * (W.n + 1):
                raise PassDidNotTerminate("one pass yielded more than %d catalogs (forecast has %d)" % (20 * (W.n + 1), W.n))
        return out
    if op == "event_counts":
        return numpy.array(fc.get_event_counts(verbose=W.verbose)).tolist()
    if op == "expected_rates":
        er = fc.get_expected_rates(verbose=W.verbose)
        return None if er is None else numpy.array(er.data, dtype=float)
    if op == "spatial_counts":
        flat = numpy.array(fc.spatial_counts(), dtype=float)
        # the same marginal in both layouts, in either order of asking: the flat vector per cell and the map on the bounding box
        grid = numpy.array(fc.spatial_counts(cartesian=True), dtype=float)
        flat2 = numpy.array(fc.spatial_counts(), dtype=float)
        if grid.ndim != 2 or flat2.shape != flat.shape or not numpy.array_equal(flat, flat2) or \
                not numpy.isclose(numpy.nansum(grid), flat.sum(), rtol=1e-12, atol=0):
            raise LayoutMixUp("flat %s, cartesian %s, flat again %s" % (flat.shape, grid.shape, flat2.shape))
        return flat
    if op == "magnitude_counts":
        return numpy.array(fc.magnitude_counts(), dtype=float)
    if op == "refused":
        # requests the library refuses or answers by an early exit, none of which abandons a pass half-way: the spatial and
        # pseudo-likelihood tests with an observed event outside the region (ValueError of the cell lookup, raised before the
        # test's own pass), and every test with an empty observation ('not-valid' result / None).  Their outcome is not judged
        # here; the operations that follow must be answered as if these had never been made.
        from csep.core.catalogs import CSEPCatalog
        region = W.S.region()
        inside = W.S.event(0, 0, 0)
        outside = ("outside",) + inside[1:2] + (float(W.S.L.ey[0]) - 3.75, float(W.S.L.ex[0]) - 7.25) + inside[4:]
        done = 0
        for f, cat in ((CE.spatial_test, CSEPCatalog(data=[inside, outside], region=region)), (CE.pseudolikelihood_test, CSEPCatalog(data=[outside, inside], region=region)),
                       (CE.spatial_test, CSEPCatalog(data=[], region=region)), (CE.magnitude_test, CSEPCatalog(data=[], region=region)),
                       (CE.pseudolikelihood_test, CSEPCatalog(data=[], region=region)), (CE.number_test, CSEPCatalog(data=[], region=region))):
            try:
                f(fc, cat, verbose=False)
            except PassDidNotTerminate:
                raise
            except Exception:  # noqa: BLE001
                done += 1
        return done
    f = {"n_test": CE.number_test, "s_test": CE.spatial_test, "m_test": CE.magnitude_test, "pl_test": CE.pseudolikelihood_test}[op]
    return result_key(f(fc, W.observation(), verbose=W.verbose))


class Session:
    """one forecast object under a growing history; step() applies an operation and checks the invariants"""

    def __init__(self, ctx, W):
        self.ctx, self.W = ctx, W
        self.fresh = {}
        self.hist = []
        self.dead = False
        o = call(W.forecast)
        if not o.ok:
            ctx.unexpected(o, "build_forecast:" + W.src)
            self.dead = True
            return
        self.fc = o.value

    def step(self, op):
        ctx, W, fc = self.ctx, self.W, self.fc
        if self.dead:
            return
        self.hist.append(op)
        hist = list(self.hist)
        from csep.core.forecasts import CatalogForecast
        with mock.patch.object(CatalogForecast, "__next__", capped_next(200 * (W.n + 1))):   # an operation makes a few passes
            o = call(run_op, W, fc, op)
        if not o.ok and isinstance(o.exc, LayoutMixUp):
            ctx.violation("spatial_counts_layouts_mixed_up", {"history": hist, "why": str(o.exc)}, dict(W.case, ops=hist))
            self.dead = True
            return
        if not o.ok and isinstance(o.exc, PassDidNotTerminate):
            ctx.violation("pass_does_not_terminate", {"history": hist, "op": op, "why": str(o.exc)}, dict(W.case, ops=hist))
            self.dead = True
            return
        if not o.ok:
            ctx.unexpected(o, "op:" + op + (":first" if len(hist) == 1 else ":after_history"))
            self.dead = True
            return
        got = o.value
        bad = None
        # ---- op-specific expectations from the model
        if op == "iterate":
            want = [(i, [tuple(ev) for ev, _, _ in cat]) for i, cat in enumerate(W.model)]
            if len(got) != W.n:
                bad = ("pass_yields_wrong_number_of_catalogs", {"history": hist, "got": len(got), "want": W.n})
            else:
                for (gid, grows), (wid, wrows) in zip(got, want):
                    if gid != wid:
                        bad = ("pass_catalog_ids_wrong", {"history": hist, "got": gid, "want": wid})
                        break
                    if grows != wrows:
                        kind = "filters_not_applied_exactly_once" if (W.flt or W.sp) else "pass_yields_different_events"
                        bad = (kind, {"history": hist, "catalog": wid, "n_got": len(grows), "n_want": len(wrows)})
                        break
        elif op == "event_counts":
            want = [len(c) for c in W.model]
            if got != want:
                kind = "event_counts_accumulate_over_passes" if len(got) > len(want) and len(got) % max(len(want), 1) == 0 else "event_counts_wrong"
                bad = (kind, {"history": hist, "got": got[:20], "want": want})
        elif op == "expected_rates":
            if got is None:
                bad = ("expected_rates_not_returned_on_repeated_request", {"history": hist})
            elif got.shape != W.mean.shape or not numpy.allclose(got, W.mean, rtol=1e-12, atol=0):
                bad = ("expected_rates_not_mean_of_counts", {"history": hist, "got_sum": float(got.sum()), "want_sum": float(W.mean.sum())})
        elif op == "spatial_counts":
            if not numpy.allclose(got, W.mean.sum(axis=1), rtol=1e-12, atol=0):
                bad = ("spatial_counts_not_marginal_of_mean", {"history": hist})
        elif op == "magnitude_counts":
            if not numpy.allclose(got, W.mean.sum(axis=0), rtol=1e-12, atol=0):
                bad = ("magnitude_counts_not_marginal_of_mean", {"history": hist})
        elif op == "refused":
            ctx.count("refused_requests_in_histories")
        else:
            if op not in self.fresh:
                with mock.patch.object(CatalogForecast, "__next__", capped_next(200 * (W.n + 1))):
                    fo = call(lambda: run_op(W, W.forecast(), op))
                if not fo.ok and isinstance(fo.exc, PassDidNotTerminate):
                    ctx.violation("pass_does_not_terminate", {"history": [op], "op": op, "why": str(fo.exc), "fresh_object": True}, dict(W.case, ops=[op]))
                    self.dead = True
                    return
                if not fo.ok:
                    ctx.unexpected(fo, "fresh:" + op)
                    self.dead = True
                    return
                self.fresh[op] = fo.value
            if got != self.fresh[op]:
                bad = ("evaluation_depends_on_history:" + op, {"history": hist, "got": str(got)[:300], "fresh": str(self.fresh[op])[:300]})
        # ---- invariant after every step
        if bad is None and fc.n_cat is not None and fc.n_cat != W.n:
            bad = ("n_cat_wrong", {"history": hist, "got": fc.n_cat, "want": W.n})
        if bad is not None:
            # the replayable case is the history so far
            ctx.violation(bad[0], bad[1], dict(W.case, ops=hist))
            self.dead = True


def check_case(ctx, case):
    with workdir() as d:
        W = World(case, d)
        sess = Session(ctx, W)
        for op in case["ops"]:
            sess.step(op)
            if sess.dead:
                return


def nontrivial(case):
    ops = case["ops"]
    passes = [o for o in ops if o not in ("event_counts",)]
    src, flt, sp = case["config"]
    two_kinds = False
    for i, o in enumerate(ops):
        if o in ("event_counts", "expected_rates") and len(set(ops[:i]) - {"event_counts"}) >= 2:
            two_kinds = True
    return two_kinds and (flt or sp)


def default_setup():
    return {"region": {"dh": "0.5", "lon0": "10", "lat0": "40", "cells": [[0, 0], [1, 0], [0, 1], [1, 1], [2, 1]], "flags": None,
                       "origin_mode": "clean", "dh_mode": "decimal"},
            "mags": {"start": "4.95", "step": "0.1", "n": 3}, "rates": [1.0] * 15, "obs": [[0, 0], [0, 0], [3, 1], [4, 2]]}


def default_cats(flt, sp):
    cats = [[[0, 0, "in"], [3, 1, "in"], [3, 1, "in"]], [], [[4, 2, "in"]], [[1, 0, "in"], [0, 0, "in"]], []]
    if flt:
        cats[0].insert(1, [2, 1, "below"])
        cats[2].append([1, 1, "early"])
        cats[3].insert(0, [0, 2, "early"])
    if sp:
        cats[0].append([2, 0, "outside"])
        cats[3].append([1, 1, "outside"])
    return cats


@st.composite
def cases(draw):
    config = draw(st.sampled_from(CONFIGS))
    src, flt, sp = config
    setup = draw(G.setups(max_cells=8, max_mags=3, max_events=8))
    nc, nm = len(setup["region"]["cells"]), setup["mags"]["n"]
    if not setup["obs"]:
        setup["obs"] = [[0, 0]]
    ncat = draw(st.integers(1, 6))
    kinds = ["in", "in", "in"] + (["below", "early"] if flt else []) + (["outside"] if sp else [])
    cats = [draw(st.lists(st.tuples(st.integers(0, nc - 1), st.integers(0, nm - 1), st.sampled_from(kinds)).map(list), max_size=6)) for _ in range(ncat)]
    if not any(k == "in" for c in cats for _, _, k in c):
        cats[0].append([0, 0, "in"])
    ops = draw(st.lists(st.sampled_from(OPS), min_size=1, max_size=8))
    return {"setup": setup, "cats": cats, "config": list(config), "ops": ops, "verbose": draw(st.integers(0, 3)) == 0,
            **({"cat_region": draw(st.sampled_from(["none", "permuted"]))} if src == "list" and draw(st.booleans()) else {}),
            **({"cat_container": draw(st.sampled_from(["generator", "generator", "tuple"]))} if src == "list" and draw(st.integers(0, 2)) == 0 else {}),
            **({"repeat": draw(st.sampled_from([20, 40]))} if draw(st.integers(0, 11)) == 0 else {})}


def run_machine(ctx, max_examples, steps):
    """Hypothesis rule-based state machine over the same Session: rules are the operations, the invariants run inside
    every rule, the forecast and configuration are drawn in @initialize; the whole history shrinks as one value."""
    import hypothesis
    from hypothesis import HealthCheck, Phase, settings
    from hypothesis.stateful import RuleBasedStateMachine, initialize, rule, run_state_machine_as_test

    class ForecastMachine(RuleBasedStateMachine):
        def __init__(self):
            super().__init__()
            self.tmp = tempfile.TemporaryDirectory()
            self.sess = None

        @initialize(case=cases().map(lambda c: dict(c, ops=[])))
        def setup(self, case):
            self.case = case
            self.sess = Session(ctx, World(case, self.tmp.name))

        def _do(self, op):
            if self.sess is not None:
                ctx._current = dict(self.case, ops=self.sess.hist + [op])
                self.sess.step(op)

        @rule()
        def iterate(self):
            self._do("iterate")

        @rule()
        def event_counts(self):
            self._do("event_counts")

        @rule()
        def expected_rates(self):
            self._do("expected_rates")

        @rule()
        def spatial_counts(self):
            self._do("spatial_counts")

        @rule()
        def magnitude_counts(self):
            self._do("magnitude_counts")

        @rule(op=st.sampled_from(["n_test", "s_test", "m_test", "pl_test"]))
        def evaluate(self, op):
            self._do(op)

        def teardown(self):
            if self.sess is not None and self.sess.hist:
                case = dict(self.case, ops=list(self.sess.hist))
                ctx.record(case, nontrivial(case), "machine:" + case["config"][0] + (":catalogs_as_" + case["cat_container"] if "cat_container" in case else ""))
            self.tmp.cleanup()

    run_state_machine_as_test(hypothesis.seed(ctx.hseed(7))(ForecastMachine),
                              settings=settings(max_examples=max_examples, stateful_step_count=steps, deadline=None, database=None,
                                                report_multiple_bugs=False, phases=[Phase.generate], suppress_health_check=list(HealthCheck)))


def run(ctx):
    run_machine(ctx, ctx.n(25, 300), ctx.n(12, 30))
    maxlen = ctx.n(3, 4)
    jobs = []
    for config in CONFIGS:
        for L in range(1, maxlen + 1):
            for ops in itertools.product(OPS, repeat=L):
                jobs.append((config, ops))
    for i, (config, ops) in enumerate(jobs):
        if i % ctx.nshards != ctx.shard:
            continue
        case = {"setup": default_setup(), "cats": default_cats(config[1], config[2]), "config": list(config), "ops": list(ops)}
        ctx.check(case)
        ctx.record({"config": list(config), "ops": list(ops), "forecast": "default 5-catalog forecast"}, nontrivial(case), "exhaustive:len%d" % len(ops))
    ctx.exhaustive["all operation sequences of length <= %d over %d operations x %d configurations" % (maxlen, len(OPS), len(CONFIGS))] = True

    def fn(c, case):
        check_case(c, case)
        c.record(case, nontrivial(case), "sampled:" + case["config"][0] + (":catalogs_as_" + case["cat_container"] if "cat_container" in case else ""))

    ctx.drive(cases(), ctx.n(60, 800), fn=fn, salt=1)
