"""C20 - evaluation outcomes do not depend on storage order (metamorphic)."""
import math

import numpy
from hypothesis import strategies as st

from pbt import gridded as G
from pbt.core import call

PROP = "C20"
TECHNIQUE = "metamorphic testing: Hypothesis-generated (forecast, catalog, region, catalog forecast) inputs re-run under generated permutations of events, synthetic catalogs and region cells (+rate rows); outcomes compared (to rounding / as multisets / bit-for-bit with a fixed seed)"
RULE = ("one case = gridded forecast pair + observed catalog + catalog forecast on a generated region, with three permutations: (a) of the "
        "observed events, (b) of the synthetic catalogs, (c) of the region's cells together with the rate rows. 1 case in 3 hands the same region-less synthetic catalog objects to the forecasts of the base case and of all variants. Every public *_test of the "
        "Poisson, binary, Brier and catalog evaluation modules is run before and after. (a): statistic / analytic quantiles equal to 1e-9, "
        "seeded simulation-based results bit-identical; (b), (c): statistics equal to 1e-9, simulation-free distributions equal as sorted "
        "multisets. Non-trivial = a permutation moving >= 2 elements and a catalog with >= 2 events in distinct cells; distinct = canonical JSON.")
ASSUMPTIONS = ["relative tolerance 1e-9 (absolute 1e-12) for quantities that are sums over a re-ordered collection",
               "under (c) seeded simulation-based distributions are not compared (the draw-to-cell mapping legitimately changes)",
               "tests whose rejection sampler needs rare bins are skipped as in C06 (counted)"]
SHARDS = {"quick": 8, "thorough": 16}


def same(a, b, tol=1e-9):
    if a is None or b is None:
        return a is b
    if isinstance(a, str) or isinstance(b, str):
        return a == b
    if isinstance(a, (tuple, list, numpy.ndarray)):
        a, b = list(a), list(b)
        return len(a) == len(b) and all(same(x, y, tol) for x, y in zip(a, b))
    a, b = float(a), float(b)
    if math.isnan(a) or math.isnan(b):
        return math.isnan(a) and math.isnan(b)
    if math.isinf(a) or math.isinf(b):
        return a == b
    return abs(a - b) <= 1e-12 + tol * max(abs(a), abs(b))


def bits(x):
    if x is None or isinstance(x, str):
        return x
    if isinstance(x, (tuple, list, numpy.ndarray)):
        return [bits(v) for v in list(x)]
    return float(x).hex() if not math.isnan(float(x)) else "nan"


class World:
    def __init__(self, case, perm_events=None, perm_cats=None, perm_cells=None, pool=None):
        self.pool = pool
        self.cat_ids = list(perm_cats) if perm_cats is not None else list(range(len(case["cats"])))
        setup = dict(case["setup"])
        rates_a = numpy.array(setup["rates"], dtype=float)
        rates_b = numpy.array(case["rates_b"], dtype=float)
        obs = [tuple(o) for o in setup["obs"]]
        cats = [[tuple(e) for e in c] for c in case["cats"]]
        nm = setup["mags"]["n"]
        nc = len(setup["region"]["cells"])
        if perm_cells is not None:
            # new cell order: new index i holds old cell perm_cells[i]
            inv = {old: new for new, old in enumerate(perm_cells)}
            rc = dict(setup["region"])
            rc["cells"] = [setup["region"]["cells"][old] for old in perm_cells]
            setup["region"] = rc
            rates_a = rates_a.reshape(nc, nm)[perm_cells].ravel()
            rates_b = rates_b.reshape(nc, nm)[perm_cells].ravel()
            obs = [(inv[k], m) for k, m in obs]
            cats = [[(inv[k], m) for k, m in c] for c in cats]
        if perm_events is not None:
            obs = [obs[i] for i in perm_events]
        if perm_cats is not None:
            cats = [cats[i] for i in perm_cats]
        setup["rates"] = rates_a.tolist()
        setup["obs"] = [list(o) for o in obs]
        self.S = G.Setup(setup)
        self.rb = rates_b.reshape(nc, nm)
        self.cats = cats
        self.region = self.S.region()
        # events keep their identity (id / time) across permutations: derive them from the *original* position
        self.event_ids = perm_events if perm_events is not None else list(range(len(obs)))

    def catalog(self):
        from csep.core.catalogs import CSEPCatalog
        evs = []
        for pos, (k, m) in enumerate(self.S.obs):
            e = list(self.S.event(self.event_ids[pos], k, m))
            evs.append(tuple(e))
        return CSEPCatalog(data=evs, region=self.region, name="obs")

    def fa(self):
        return self.S.forecast(self.region, name="A")

    def fb(self):
        return self.S.forecast(self.region, rates=self.rb, name="B")

    def cf(self):
        from csep.core.forecasts import CatalogForecast
        if self.pool is not None:
            # "shared_cats": the synthetic catalogs are in-memory objects built once, without a region, and handed to every forecast of
            # the case (base and variants, each on its own region object): a forecast grids them on ITS region
            from csep.core.catalogs import CSEPCatalog
            cs = []
            for pos, c in enumerate(self.cats):
                j = self.cat_ids[pos]
                if j not in self.pool:
                    self.pool[j] = CSEPCatalog(data=[self.S.event(i, k, m) for i, (k, m) in enumerate(c)], name="c")
                cs.append(self.pool[j])
        else:
            cs = [self.S.catalog(self.region, obs=c, name="c") for c in self.cats]
        return CatalogForecast(catalogs=cs, n_cat=len(cs), region=self.region, start_time=G.T0, end_time=G.T1, name="cf")


class _QS:
    """minimal stand-in for gridded.Setup on a quadtree region"""
    pass


class QuadWorld:
    def __init__(self, case, perm_events=None, perm_cats=None, perm_cells=None):
        from pbt import exact, quad
        keys = list(case["keys"])
        nt = len(keys)
        nm = case["mags"]["n"]
        ra = numpy.array(case["rates"], dtype=float).reshape(nt, nm)
        rb = numpy.array(case["rates_b"], dtype=float).reshape(nt, nm)
        obs = [tuple(o) for o in case["obs"]]          # (tile, mag bin, on_south_edge)
        if perm_cells is not None:
            inv = {old: new for new, old in enumerate(perm_cells)}
            keys = [keys[old] for old in perm_cells]
            ra, rb = ra[perm_cells], rb[perm_cells]
            obs = [(inv[k], m, e) for k, m, e in obs]
        self.event_ids = perm_events if perm_events is not None else list(range(len(obs)))
        if perm_events is not None:
            obs = [obs[i] for i in perm_events]
        S = _QS()
        S.edges = exact.decimal_grid(case["mags"]["start"], case["mags"]["step"], nm)
        S.hm = float(case["mags"]["step"])
        S.nm, S.nc = nm, nt
        S.rates = ra
        S.obs = [(k, m) for k, m, e in obs]
        self.S, self.rb, self.keys, self.obs3 = S, rb, keys, obs
        self.bounds = [quad.bounds(k) for k in keys]
        from csep.core.regions import QuadtreeGrid2D
        self.region = QuadtreeGrid2D.from_quadkeys(keys, magnitudes=numpy.array(S.edges))
        self.cats = []

    def _fore(self, data, name):
        from csep.core.forecasts import GriddedForecast
        return GriddedForecast(start_time=G.T0, end_time=G.T1, data=numpy.array(data), region=self.region,
                               magnitudes=numpy.array(self.S.edges), name=name)

    def fa(self):
        return self._fore(self.S.rates, "A")

    def fb(self):
        return self._fore(self.rb, "B")

    def catalog(self):
        from csep.core.catalogs import CSEPCatalog
        evs = []
        for pos, (k, m, edge) in enumerate(self.obs3):
            w, s_, e, n = self.bounds[k]
            lat = s_ if (edge and s_ == 0.0) else (s_ + n) / 2      # the equator is an exact tile line: south-inclusive
            evs.append(("ev%d" % self.event_ids[pos], 1262304000000 + 1000 * self.event_ids[pos], lat, (w + e) / 2, 10.0, self.S.edges[m] + self.S.hm / 2))
        return CSEPCatalog(data=evs, region=self.region, name="obs")


def suite(W, case):
    """name -> (kind, thunk); kind: 'analytic' | 'seeded' | 'catalog' | 'catalog_seeded'"""
    from csep.core import poisson_evaluations as P, binomial_evaluations as Bn, brier_evaluations as Br, catalog_evaluations as CE
    from pbt.props.c06 import reachable
    S = W.S
    n = len(S.obs)
    seed = numpy.int64(case["seed"]) if case.get("np_seed") else case["seed"]      # seeds are integers: Python int or numpy integer
    k = case["nsim"]
    t = {"poisson_N": ("analytic", lambda: P.number_test(W.fa(), W.catalog())),
         "nbd_N": ("analytic", lambda: Bn.negative_binomial_number_test(W.fa(), W.catalog(), float(S.rates.sum()) * 3 + 1)),
         "poisson_L": ("seeded", lambda: P.likelihood_test(W.fa(), W.catalog(), num_simulations=k, seed=seed)),
         "poisson_CL": ("seeded", lambda: P.conditional_likelihood_test(W.fa(), W.catalog(), num_simulations=k, seed=seed)),
         "poisson_S": ("seeded", lambda: P.spatial_test(W.fa(), W.catalog(), num_simulations=k, seed=seed)),
         "poisson_M": ("seeded", lambda: P.magnitude_test(W.fa(), W.catalog(), num_simulations=k, seed=seed))}
    if n >= 2:
        t["paired_T"] = ("analytic", lambda: P.paired_t_test(W.fa(), W.fb(), W.catalog()))
        t["W"] = ("analytic_w", lambda: P.w_test(W.fa(), W.fb(), W.catalog()))
        t["binary_T"] = ("analytic", lambda: Bn.binary_paired_t_test(W.fa(), W.fb(), W.catalog()))
    act_bins = sorted(set(S.obs))
    act_cells = sorted(set(c for c, m in S.obs))
    if reachable(S.rates.ravel().tolist(), len(act_bins)):
        t["binary_CL"] = ("seeded", lambda: Bn.binary_conditional_likelihood_test(W.fa(), W.catalog(), num_simulations=k, seed=seed))
        t["brier"] = ("seeded", lambda: Br.brier_score_test(W.fa(), W.catalog(), num_simulations=k, seed=seed))
    if reachable(S.rates.sum(axis=1).tolist(), len(act_cells)):
        t["binary_S"] = ("seeded", lambda: Bn.binary_spatial_test(W.fa(), W.catalog(), num_simulations=k, seed=seed))
    if isinstance(W, QuadWorld):
        return t
    t["catalog_N"] = ("catalog", lambda: CE.number_test(W.cf(), W.catalog(), verbose=False))
    t["catalog_S"] = ("catalog", lambda: CE.spatial_test(W.cf(), W.catalog(), verbose=False))
    t["catalog_M"] = ("catalog", lambda: CE.magnitude_test(W.cf(), W.catalog(), verbose=False))
    t["catalog_PL"] = ("catalog", lambda: CE.pseudolikelihood_test(W.cf(), W.catalog(), verbose=False))
    if S.nm >= 2:
        t["catalog_resampledM"] = ("catalog_seeded", lambda: CE.resampled_magnitude_test(W.cf(), W.catalog(), seed=seed))
        t["catalog_MLL"] = ("catalog_seeded", lambda: CE.MLL_magnitude_test(W.cf(), W.catalog(), seed=seed))
    return t


def run_suite(ctx, W, case, tag):
    out = {}
    import zlib
    for name, (kind, f) in suite(W, case).items():
        # a different state of the global generator before every call and every variant: a result may depend on its seed only
        numpy.random.seed(zlib.crc32(("%s/%s" % (tag, name)).encode()))
        o = call(f)
        if not o.ok:
            ctx.count("not_produced:%s" % name)
            continue
        out[name] = (kind, o.value)
    return out


def near_tie_w(W):
    """W-test: rank ties between events of different bins are decided by the last bits of log() (see C08) -> order dependent by rounding"""
    S = W.S
    d = sorted((math.log(S.rates[c, m]) - math.log(W.rb[c, m]), (c, m)) for c, m in S.obs)
    med = (S.rates.sum() - W.rb.sum()) / max(len(S.obs), 1)
    ad = sorted((abs(v - med), b) for v, b in d)

    def pair(b):
        return (float(S.rates[b]), float(W.rb[b]))

    def same_numbers(a, b):
        # identical or mirrored (rate_A, rate_B) pairs with a null median of exactly 0: |d| is bit-equal in any implementation
        return med == 0 and (pair(a) == pair(b) or pair(a) == pair(b)[::-1])
    # exact ties / zeros from identical or mirrored rate pairs with bit-equal totals are decided identically in any order; values that
    # merely agree to within rounding (4/6 vs 6/9) are order dependent
    near_ties = any(b[0] - a[0] <= 1e-9 * max(b[0], 1e-300) and a[1] != b[1] and not same_numbers(a[1], b[1]) for a, b in zip(ad, ad[1:]))
    near_zero = any(a[0] < 1e-9 * (abs(med) + 1e-300) and not (med == 0 and pair(a[1])[0] == pair(a[1])[1]) for a in ad)
    return near_ties or near_zero


def t_ill_conditioned(W, binary=False):
    """sample variance of the log-rate differences dominated by rounding (e.g. B = const * A): t and interval are 0/0-like"""
    S = W.S
    bins = sorted(set(S.obs)) if binary else S.obs
    d = [math.log(S.rates[c, m]) - math.log(W.rb[c, m]) for c, m in bins]
    n = len(d)
    if n < 2:
        return True
    mean = math.fsum(d) / n
    var = math.fsum((x - mean) ** 2 for x in d) / (n - 1)
    return var <= 1e-6 * (math.fsum(x * x for x in d) / n + 1e-300)


def check_case(ctx, case):
    if case.get("k") == "quad":
        base = QuadWorld(case)
        ref = run_suite(ctx, base, case, "base")
        variants = [("events", QuadWorld(case, perm_events=case["perm_events"])), ("cells", QuadWorld(case, perm_cells=case["perm_cells"]))]
    else:
        pool = {} if case.get("shared_cats") else None
        if pool is not None:
            ctx.count("cases_with_shared_synthetic_catalog_objects")
        base = World(case, pool=pool)
        ref = run_suite(ctx, base, case, "base")
        variants = [("events", World(case, perm_events=case["perm_events"], pool=pool)), ("catalogs", World(case, perm_cats=case["perm_cats"], pool=pool)),
                    ("cells", World(case, perm_cells=case["perm_cells"], pool=pool))]
    for vname, W in variants:
        got = run_suite(ctx, W, case, vname)
        for name, (kind, r0) in ref.items():
            if name not in got:
                continue
            r1 = got[name][1]
            if (r0 is None) != (r1 is None):
                ctx.violation("%s:%s:result_presence_changed" % (vname, name), None)
                continue
            if r0 is None:
                continue
            ctx.count("compared:" + vname)
            if kind == "analytic_w" and near_tie_w(base):
                ctx.count("skipped:W_near_tie")
                continue
            if r0.status != r1.status:
                ctx.violation("%s:%s:status_changed" % (vname, name), {"before": r0.status, "after": r1.status})
            if not same(r0.observed_statistic, r1.observed_statistic):
                ctx.violation("%s:%s:observed_statistic_changed" % (vname, name), {"before": repr(r0.observed_statistic), "after": repr(r1.observed_statistic)})
            if name in ("paired_T", "binary_T") and t_ill_conditioned(base, name == "binary_T"):
                ctx.count("skipped:t_statistic_ill_conditioned")
                continue
            if kind in ("analytic", "analytic_w"):
                if not same(r0.quantile, r1.quantile, 1e-7 if name in ("paired_T", "binary_T") else 1e-9):
                    ctx.violation("%s:%s:analytic_quantile_changed" % (vname, name), {"before": repr(r0.quantile), "after": repr(r1.quantile)})
                if name in ("paired_T", "binary_T") and not same(r0.test_distribution, r1.test_distribution, 1e-7):
                    ctx.violation("%s:%s:interval_changed" % (vname, name), {"before": repr(r0.test_distribution), "after": repr(r1.test_distribution)})
            elif kind == "seeded":
                if vname == "events":
                    a = (bits(r0.quantile), bits(r0.observed_statistic), bits(r0.test_distribution))
                    b = (bits(r1.quantile), bits(r1.observed_statistic), bits(r1.test_distribution))
                    if a != b:
                        ctx.violation("events:%s:seeded_result_not_bit_identical" % name, {"q": [repr(r0.quantile), repr(r1.quantile)],
                                                                                          "obs": [repr(r0.observed_statistic), repr(r1.observed_statistic)]})
                elif vname == "catalogs":
                    # the gridded tests do not involve the catalog forecast at all
                    if bits(r0.test_distribution) != bits(r1.test_distribution):
                        ctx.violation("catalogs:%s:seeded_result_changed" % name, None)
            elif kind == "catalog":
                a = sorted(float(x) for x in r0.test_distribution)
                b = sorted(float(x) for x in r1.test_distribution)
                if not same(a, b):
                    ctx.violation("%s:%s:distribution_changed_as_multiset" % (vname, name), {"before": a[:5], "after": b[:5], "n": [len(a), len(b)]})
                if not same(r0.quantile, r1.quantile):
                    # quantiles are fractions of comparisons; a statistic that ties with distribution entries to rounding may flip
                    ties = any(abs(x - float(r0.observed_statistic)) <= 1e-9 * max(1.0, abs(x)) and x != float(r0.observed_statistic) for x in a) \
                        if isinstance(r0.observed_statistic, (int, float, numpy.floating, numpy.integer)) else False
                    if ties or (vname != "events" and any(abs(x - float(r0.observed_statistic)) <= 1e-9 * max(1.0, abs(x)) for x in a)):
                        ctx.count("skipped:quantile_tie_within_rounding")
                    else:
                        ctx.violation("%s:%s:quantile_changed" % (vname, name), {"before": repr(r0.quantile), "after": repr(r1.quantile)})
            elif kind == "catalog_seeded":
                if vname == "events":
                    if bits(r0.test_distribution) != bits(r1.test_distribution) or bits(r0.quantile) != bits(r1.quantile):
                        ctx.violation("events:%s:seeded_result_not_bit_identical" % name, None)


def moved(p):
    return sum(1 for i, v in enumerate(p) if i != v)


def nontrivial(case):
    if case.get("k") == "quad":
        return max(moved(case["perm_events"]), moved(case["perm_cells"])) >= 2 and len(set(o[0] for o in case["obs"])) >= 2
    cells = set(k for k, m in case["setup"]["obs"])
    return max(moved(case["perm_events"]), moved(case["perm_cats"]), moved(case["perm_cells"])) >= 2 and len(cells) >= 2


@st.composite
def cases(draw):
    setup = draw(G.setups(max_cells=10, max_mags=4, max_events=25, lo=-4, hi=2))
    setup["rates"] = [r if r > 0 else 0.01 * (i + 1) for i, r in enumerate(setup["rates"])]
    rates_b = [float("%.6g" % (r * draw(st.floats(0.3, 3.0)))) for r in setup["rates"]]
    if draw(st.integers(0, 3)) == 0:
        # dyadic rates and B = A with some pairs of bins swapped: totals bit-equal in any summation order, the null median of the
        # W-test is exactly 0 and events in unswapped bins have a log-rate difference of exactly 0 (wherever they are stored)
        nr = len(setup["rates"])
        setup["rates"] = [draw(st.integers(1, 640)) / 64.0 for _ in range(nr)]
        setup.pop("rate_dtype", None)
        rates_b = list(setup["rates"])
        for _ in range(draw(st.integers(1, max(1, nr // 2)))):
            i, j = draw(st.integers(0, nr - 1)), draw(st.integers(0, nr - 1))
            rates_b[i], rates_b[j] = rates_b[j], rates_b[i]
    nc, nm = len(setup["region"]["cells"]), setup["mags"]["n"]
    J = draw(st.integers(1, 8))
    cats = [draw(st.lists(st.tuples(st.integers(0, nc - 1), st.integers(0, nm - 1)).map(list), max_size=10)) for _ in range(J)]
    if not any(cats):
        cats[0] = [[0, 0]]
    extra = draw(st.lists(st.tuples(st.integers(0, nc - 1), st.integers(0, nm - 1)).map(list), min_size=3, max_size=6))
    if draw(st.integers(0, 3)):
        setup["obs"] = setup["obs"] + extra
    n = len(setup["obs"])
    return {**({"np_seed": True} if draw(st.integers(0, 2)) == 0 else {}),
            **({"shared_cats": True} if draw(st.integers(0, 2)) == 0 else {}),
            "setup": setup, "rates_b": rates_b, "cats": cats, "seed": draw(st.sampled_from([0, 1, 7, 2**31 - 1])), "nsim": draw(st.integers(1, 4)),
            "perm_events": list(draw(st.permutations(list(range(n))))), "perm_cats": list(draw(st.permutations(list(range(J))))),
            "perm_cells": list(draw(st.permutations(list(range(nc)))))}


@st.composite
def quad_cases(draw):
    from pbt import quad
    keys = []
    for k in quad.all_keys(draw(st.integers(1, 2))):
        keys += quad.children(k) if draw(st.integers(0, 3)) == 0 else [k]
    nt = len(keys)
    nm = draw(st.integers(1, 3))
    mc = {"start": draw(st.sampled_from(["4.95", "5.0"])), "step": draw(st.sampled_from(["0.1", "0.5"])), "n": nm}
    rates = [float("%.6g" % 10 ** draw(st.floats(-4, 1))) for _ in range(nt * nm)]
    rates_b = [float("%.6g" % (r * draw(st.floats(0.3, 3.0)))) for r in rates]
    north_of_equator = [i for i, k in enumerate(keys) if quad.bounds(k)[1] == 0.0]
    obs = []
    for _ in range(draw(st.integers(2, 12))):
        if north_of_equator and draw(st.booleans()):
            obs.append([draw(st.sampled_from(north_of_equator)), draw(st.integers(0, nm - 1)), 1])
        else:
            obs.append([draw(st.integers(0, nt - 1)), draw(st.integers(0, nm - 1)), 0])
    return {"k": "quad", "keys": keys, "mags": mc, "rates": rates, "rates_b": rates_b, "obs": obs, "seed": draw(st.sampled_from([0, 1, 7])),
            "nsim": draw(st.integers(1, 3)), "perm_events": list(draw(st.permutations(list(range(len(obs)))))),
            "perm_cats": [], "perm_cells": list(draw(st.permutations(list(range(nt))))), "cats": []}


def run(ctx):
    def fn(c, case):
        check_case(c, case)
        c.record(case, nontrivial(case), "quadtree" if case.get("k") == "quad" else "triple")

    ctx.drive(quad_cases(), ctx.n(40, 400), fn=fn, salt=2)

    ctx.drive(cases(), ctx.n(200, 1500), fn=fn, salt=1)
