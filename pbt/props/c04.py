"""C04 - catalog filtering keeps exactly the events that satisfy every statement."""
import datetime as D
import operator
import os
import tempfile

import numpy
from hypothesis import strategies as st

from pbt import files, lattice
from pbt.core import call, draw_tz, workdir

PROP = "C04"
TECHNIQUE = "Hypothesis-generated catalogs x statement lists x application plans vs. list-comprehension reference filter; metamorphic relations (order, grouping, idempotence, datetime==origin_time, non-mutation); spatial filter vs. exact containment oracle"
RULE = ("one case = catalog (0..40 events, attribute values from small pools so thresholds tie with values) x 1..4 statements over "
        "{origin_time, latitude, longitude, depth, magnitude, datetime} x {<,<=,>,>=,==} with threshold = an attribute value / midpoint / "
        "outside value x in_place (Python or numpy bool) x row order (as drawn, by time, by magnitude, lexicographic) x plan (list, single string, chained in a drawn order, repeated); plus spatial-filter cases on generated "
        "lattices and load_catalog(filters=..., apply_filters=True) on a written file. Non-trivial = some statement's threshold equals an "
        "attribute value of an event and the result is neither empty nor everything; distinct = canonical JSON.")
ASSUMPTIONS = ["statements are well-formed 'attribute op value' strings with one space between tokens; numeric thresholds written with repr()",
               "datetime statements use 'YYYY-MM-DD HH:MM:SS[.ffffff]' (UTC)",
               "reference: Python comparison of the stored float64/int64 value with float(threshold), as documented ('attribute op value')",
               "spatial filter: events within slack of a cell boundary are left out of the exact comparison (C01 covers them)"]
SHARDS = {"quick": 8, "thorough": 16}
OPS = {"<": operator.lt, "<=": operator.le, ">": operator.gt, ">=": operator.ge, "==": operator.eq}
COL = {"origin_time": 1, "latitude": 2, "longitude": 3, "depth": 4, "magnitude": 5}
EPOCH = D.datetime(1970, 1, 1)


def dt_string(ms):
    dt = EPOCH + D.timedelta(milliseconds=ms)
    s = dt.strftime("%Y-%m-%d %H:%M:%S")
    return s if ms % 1000 == 0 else s + ".%06d" % dt.microsecond


def statement(s):
    """s = [attr, op, value]; value is a float / int (datetime: integer ms)"""
    if s[0] == "datetime":
        return "datetime %s %s" % (s[1], dt_string(s[2]))
    return "%s %s %r" % (s[0], s[1], s[2])


def ref_filter(events, stmts):
    out = list(events)
    for a, op, v in stmts:
        col = COL["origin_time" if a == "datetime" else a]
        out = [e for e in out if OPS[op](e[col], float(v))]
    return out


def rows(cat):
    out = []
    for r in cat.catalog.tolist():
        out.append([r[0].decode() if isinstance(r[0], bytes) else r[0]] + list(r[1:]))
    return out


def same(a, b):
    def eq(u, v):
        return u == v or (isinstance(u, float) and isinstance(v, float) and u != u and v != v)      # NaN equals NaN here
    return len(a) == len(b) and all(len(x) == len(y) and all(eq(u, v) for u, v in zip(x, y)) for x, y in zip(a, b))


def check_case(ctx, case):
    if case["k"] == "spatial":
        return check_spatial(ctx, case)
    from csep.core.catalogs import CSEPCatalog
    import csep
    events = [tuple(e) for e in case["events"]]
    if case.get("nan_depth"):
        # depth unknown (NaN): no comparison on depth is true for such an event, whatever the operator and however the statements
        # are grouped
        events = [tuple(e[:4]) + (float("nan"),) + tuple(e[5:]) if i in case["nan_depth"] else e for i, e in enumerate(events)]
        ctx.count("cases_with_nan_depth")
    stmts = case["stmts"]
    strs = [statement(s) for s in stmts]
    want = ref_filter(events, stmts)
    plan = case["plan"]
    in_place = case["in_place"]
    if case.get("np_bool"):
        in_place = numpy.bool_(in_place)        # the flag as a numpy boolean (what `mask.any()` or a record field hands out)
        ctx.count("in_place_flag_as_numpy_bool")

    def fresh():
        return CSEPCatalog(data=list(events), catalog_id=3, name="c")

    def apply(cat, arg):
        if case.get("positional"):
            return cat.filter(arg, in_place)        # documented signature filter(statements, in_place): both positional
        r = cat.filter(arg, in_place=in_place)
        return r

    src = fresh()
    before = src.catalog.copy() if src.event_count else src.catalog.copy()
    if plan == "list":
        o = call(lambda: apply(src, list(strs)))
    elif plan == "tuple":
        o = call(lambda: apply(src, tuple(strs)))
    elif plan == "single_str":
        o = call(lambda: apply(src, strs[0]))
        want = ref_filter(events, stmts[:1])
    elif plan == "chained":
        def chain():
            c = src
            for i in case["order"]:
                c = apply(c, strs[i])
            return c
        o = call(chain)
    elif plan == "repeated":
        def rep():
            c = apply(src, list(strs))
            return apply(c, list(strs))
        o = call(rep)
    elif plan == "permuted":
        o = call(lambda: apply(src, [strs[i] for i in case["order"]]))
    elif plan == "notinplace_then_inplace":
        # the same statements first without, then with in_place on the same object
        def seq():
            first = src.filter(list(strs), in_place=False)
            if not same(rows(first), want):
                ctx.violation("filter_wrong", {"plan": plan, "step": "first (in_place=False)"})
            return src.filter(list(strs), in_place=True)
        o = call(seq)
        in_place = True
    elif plan == "ctor_filters_then_filter":
        # statements given at construction are stored, not applied; filtering by the same statements must still filter
        def seq2():
            c = CSEPCatalog(data=list(events), catalog_id=3, name="c", filters=list(strs))
            return c.filter(list(strs), in_place=True) if case["order"][0] % 2 else c.filter(in_place=True)
        o = call(seq2)
        in_place = None
    elif plan == "stale_then_empty":
        # an earlier non-in-place call (or filters= given at construction) leaves statements on the object;
        # a later call with an empty statement list has no statement to satisfy and keeps every event
        def stale():
            if case["order"][0] % 2:
                src.filter(list(strs), in_place=False)
            else:
                src.filters = list(strs)
            return apply(src, [])
        o = call(stale)
        want = list(events)
    elif plan == "load_catalog":
        with workdir() as d:
            p = os.path.join(d, "cat.csv")
            files.write_csep_csv(p, events, catalog_id=3, frac="us")
            o = call(lambda: csep.load_catalog(p, filters=list(strs), apply_filters=True))
    elif plan == "load_catalog_region":
        # apply_filters=True with a region: statements AND spatial filter
        L = lattice.Lattice(case["region"])
        ob = call(L.build, "from_origins")
        if not ob.ok:
            ctx.unexpected(ob, "build_region")
            return
        region = ob.value
        inside = []
        for e in want:
            sure, cands = L.classify(e[3], e[2], False)
            if not sure and cands:
                ctx.count("skipped:ambiguous_point")
                return
            if sure:
                inside.append(e)
        want = inside
        with workdir() as d:
            if case.get("via_json"):
                # the region and the statements travel inside a JSON catalog file; apply_filters=True applies both on loading
                p = os.path.join(d, "cat.json")
                CSEPCatalog(data=list(events), catalog_id=3, name="c", region=region, filters=list(strs)).write_json(p)
                o = call(lambda: csep.load_catalog(p, apply_filters=True))
                ctx.count("load_catalog_json_with_region_and_filters")
            else:
                p = os.path.join(d, "cat.csv")
                files.write_csep_csv(p, events, catalog_id=3, frac="us")
                o = call(lambda: csep.load_catalog(p, filters=list(strs), region=region, apply_filters=True))
    else:
        raise ValueError(plan)
    if not o.ok:
        ctx.unexpected(o, "filter:" + plan)
        return
    got = rows(o.value)
    if not same(got, want):
        kind = "filter_wrong"
        if any(s[0] == "datetime" for s in stmts):
            kind = "filter_wrong:datetime_statement"
        ctx.violation(kind, {"plan": plan, "stmts": strs, "n_got": len(got), "n_want": len(want),
                             "got_ids": [g[0] for g in got][:10], "want_ids": [w[0] for w in want][:10]})
    if plan not in ("load_catalog", "load_catalog_region") and in_place is not None:
        if in_place:
            if o.value is not src:
                ctx.violation("in_place_returned_other_object", None)
        else:
            if o.value is src:
                ctx.violation("not_in_place_returned_self", None)
            if src.event_count != len(events) or not same([list(r) for r in src.catalog.tolist()], [list(r) for r in before.tolist()]):
                ctx.violation("not_in_place_mutated_source", {"n_before": len(events), "n_after": src.event_count})
            if o.value is not src and src.event_count and numpy.shares_memory(o.value.catalog, src.catalog) and o.value.event_count:
                # a view would let later in-place edits of one catalog reach the other
                ctx.violation("not_in_place_returned_view", None)
    # datetime statement == origin_time statement for the same instant
    if any(s[0] == "datetime" for s in stmts):
        alt = [statement(["origin_time", s[1], s[2]]) if s[0] == "datetime" else statement(s) for s in stmts]
        o2 = call(lambda: fresh().filter(list(alt), in_place=True))
        o1 = call(lambda: fresh().filter(list(strs), in_place=True))
        if o1.ok and o2.ok and not same(rows(o1.value), rows(o2.value)):
            ctx.violation("datetime_statement_differs_from_origin_time", {"datetime": strs, "origin_time": alt})


def check_spatial(ctx, case):
    from csep.core.catalogs import CSEPCatalog
    L = lattice.Lattice(case["region"])
    ctor = case["region"]["ctor"]
    o = call(L.build, ctor)
    if not o.ok:
        ctx.unexpected(o, "build_region")
        return
    region = o.value
    pts = case["points"]
    events = [("e%d" % i, i, p[1], p[0], 1.0, 5.0) for i, p in enumerate(pts)]
    keep, amb = [], set()
    for i, p in enumerate(pts):
        sure, cands = L.classify(p[0], p[1], ctor == "ctor_mask")
        if sure:
            keep.append(i)
        elif cands:
            amb.add(i)   # within slack of a boundary: either answer is admissible (C01 covers these)
            ctx.count("ambiguous_points_left_out")
    # a different region the catalog may already be bound to: one cell far away (keeps nothing) or the bounding box grown by a cell
    from csep.core.regions import CartesianGrid2D
    grown = [[L._coord(L.lon0, L.i0 + i), L._coord(L.lat0, L.j0 + j)] for i in range(-1, L.nx + 1) for j in range(-1, L.ny + 1)]
    ob = call(lambda: (CartesianGrid2D.from_origins(numpy.array([[L.ex[0] - 20 * L.fdh, L.ey[0]]]), dh=L.fdh),
                       CartesianGrid2D.from_origins(numpy.array(grown), dh=L.fdh)))
    if not ob.ok:
        ctx.unexpected(ob, "build_other_regions")
        return
    other_far, other_big = ob.value
    for in_place in ((numpy.True_, numpy.False_) if case.get("np_bool") else (True, False)):
        for via in ("arg", "bound", "arg_over_far", "arg_over_big"):
            bound_to = {"arg": None, "bound": region, "arg_over_far": other_far, "arg_over_big": other_big}[via]
            src = CSEPCatalog(data=list(events), region=bound_to)
            # update_stats (documented flag) on every other variant: same kept events
            kw = {"update_stats": True} if (via in ("bound", "arg_over_far")) == in_place else {}
            if case.get("refused_gridding_first"):
                # the events were first gridded on the region (refused when one of them lies outside it; not judged), by a catalog
                # bound to it, and when the filtered catalog itself is bound to the region, by that catalog
                for g in ((lambda: CSEPCatalog(data=list(events), region=region).spatial_counts()),
                          (lambda: src.spatial_counts()), (lambda: src.spatial_event_probability())):
                    call(g)
            o = call(lambda: src.filter_spatial(None if via == "bound" else region, in_place=in_place, **kw))
            if not o.ok:
                ctx.unexpected(o, "filter_spatial" + (":update_stats" if kw else ""))
                continue
            ctx.count("filter_spatial_calls" + (":update_stats" if kw else ""))
            got = [int(t) for t in o.value.get_epoch_times() if int(t) not in amb]
            if got != keep:
                ctx.violation("filter_spatial_wrong" + (":region_argument_ignored" if via.startswith("arg_over") else ""),
                              {"via": via, "got": got[:10], "want": keep[:10], "n_got": len(got), "n_want": len(keep)})
            elif not same([r for r in rows(o.value) if r[1] not in amb], [list(events[i]) for i in keep]):
                ctx.violation("filter_spatial_changed_fields", None)
            if not in_place and (src.event_count != len(events) or not same(rows(src), [list(e) for e in events])):
                ctx.violation("filter_spatial_mutated_source", {"n_before": len(events), "n_after": src.event_count})


def nontrivial(case):
    if case["k"] == "spatial":
        return len(case["points"]) >= 2
    ev = case["events"]
    want = ref_filter([tuple(e) for e in ev], case["stmts"])
    tie = any(any(e[COL["origin_time" if s[0] == "datetime" else s[0]]] == s[2] for e in ev) for s in case["stmts"])
    return tie and 0 < len(want) < len(ev)


MS_LO = -2208988800000
MS_HI = 7258118400000


@st.composite
def cases(draw, max_events=40):
    pools = {
        1: draw(st.lists(st.one_of(st.integers(MS_LO, MS_HI), st.integers(0, 10**9).map(lambda x: x * 1000)), min_size=1, max_size=5)),
        2: draw(st.lists(st.one_of(st.floats(-90, 90), st.integers(-900, 900).map(lambda x: x / 10)), min_size=1, max_size=4)),
        3: draw(st.lists(st.one_of(st.floats(-180, 180), st.integers(-1800, 1800).map(lambda x: x / 10)), min_size=1, max_size=4)),
        4: draw(st.lists(st.one_of(st.floats(0, 700), st.integers(0, 700).map(float)), min_size=1, max_size=4)),
        5: draw(st.lists(st.one_of(st.floats(-2, 10), st.integers(0, 100).map(lambda x: x / 10)), min_size=1, max_size=4)),
    }
    n = draw(st.one_of(st.integers(0, 3), st.integers(0, max_events)))
    ev = []
    for i in range(n):
        ev.append(["id%d" % i] + [draw(st.sampled_from(pools[c])) for c in range(1, 6)])
    # catalogs usually arrive in time order; a filter must not care (nor about any other order of the rows)
    sortby = draw(st.sampled_from([None, None, "time", "time", "time_desc", "magnitude", "all_columns"]))
    if sortby == "time":
        ev.sort(key=lambda e: e[1])
    elif sortby == "time_desc":
        ev.sort(key=lambda e: -e[1])
    elif sortby == "magnitude":
        ev.sort(key=lambda e: e[5])
    elif sortby == "all_columns":
        ev.sort(key=lambda e: tuple(e[1:]))
    ns = draw(st.integers(1, 4))
    stmts = []
    for _ in range(ns):
        a = draw(st.sampled_from(["origin_time", "latitude", "longitude", "depth", "magnitude", "datetime", "datetime"]))
        col = COL["origin_time" if a == "datetime" else a]
        pool = sorted(set(pools[col]))
        mode = draw(st.sampled_from(["value", "value", "mid", "outside"]))
        if mode == "value":
            v = draw(st.sampled_from(pool))
        elif mode == "mid":
            x, y = draw(st.sampled_from(pool)), draw(st.sampled_from(pool))
            v = (x + y) // 2 if col == 1 else (x + y) / 2
        else:
            v = (pool[0] - 1) if draw(st.booleans()) else (pool[-1] + 1)
        if col == 1:
            v = max(MS_LO, min(MS_HI, int(v)))
            if a == "origin_time" and draw(st.integers(0, 3)) == 0:
                v = v + draw(st.sampled_from([0.5, -0.5, 0.25]))      # thresholds between two milliseconds are legitimate numbers
        stmts.append([a, draw(st.sampled_from(list(OPS))), v])
    plan = draw(st.sampled_from(["list", "list", "tuple", "single_str", "chained", "repeated", "permuted", "load_catalog", "load_catalog", "load_catalog", "stale_then_empty", "notinplace_then_inplace", "ctor_filters_then_filter"]))
    case = {"k": "filter", "events": ev, "stmts": stmts, "plan": plan, "in_place": draw(st.booleans())}
    if draw(st.integers(0, 3)) == 0:
        case["positional"] = True
    if draw(st.integers(0, 3)) == 0:
        case["np_bool"] = True
    if n and plan not in ("load_catalog",) and draw(st.integers(0, 3)) == 0:
        case["nan_depth"] = sorted(set(draw(st.lists(st.integers(0, n - 1), min_size=1, max_size=3))))
    if plan in ("chained", "permuted", "stale_then_empty", "ctor_filters_then_filter"):
        case["order"] = list(draw(st.permutations(list(range(ns)))))
    if plan == "load_catalog" and draw(st.integers(0, 2)) > 0:
        # with a region: place the events relative to a generated lattice
        case["plan"] = "load_catalog_region"
        case["via_json"] = draw(st.integers(0, 2)) > 0
        rc = draw(lattice.lattices(max_n=4, flags=False))
        rc["dh_mode"] = "decimal"
        case["region"] = rc
        L = lattice.Lattice(rc)
        for e in ev:
            i = draw(st.integers(-1, L.nx))
            j = draw(st.integers(-1, L.ny))
            fx, fy = draw(st.sampled_from([0, 0.25, 0.5, 0.75])), draw(st.sampled_from([0, 0.25, 0.5, 0.75]))
            x0, y0 = L._coord(L.lon0, L.i0 + i), L._coord(L.lat0, L.j0 + j)
            e[3] = x0 if fx == 0 else x0 + fx * L.fdh
            e[2] = y0 if fy == 0 else y0 + fy * L.fdh
        # thresholds on latitude / longitude were drawn from the old pools: keep them, they are still legitimate statements
    return draw_tz(draw, case)


@st.composite
def spatial_cases(draw):
    rc = draw(lattice.lattices(max_n=6))
    rc["dh_mode"] = "decimal"
    rc["ctor"] = draw(st.sampled_from(["from_origins", "ctor_mask", "dict"]))
    L = lattice.Lattice(rc)
    n = draw(st.integers(0, 30))
    pts = []
    for _ in range(n):
        i = draw(st.integers(-1, L.nx))
        j = draw(st.integers(-1, L.ny))
        fx = draw(st.sampled_from([0, 0.25, 0.5, 0.75]))
        fy = draw(st.sampled_from([0, 0.25, 0.5, 0.75]))
        x0, y0 = L._coord(L.lon0, L.i0 + i), L._coord(L.lat0, L.j0 + j)
        pts.append([x0 if fx == 0 else x0 + fx * L.fdh, y0 if fy == 0 else y0 + fy * L.fdh])
    # the same place written in the 0..360 / -360..0 longitude convention: a different longitude as far as the region is concerned
    for p in list(pts[:3]):
        if draw(st.booleans()):
            pts.append([p[0] + (360.0 if p[0] < 0 or draw(st.booleans()) else -360.0), p[1]])
    return {"k": "spatial", "region": rc, "points": pts, **({"np_bool": True} if draw(st.integers(0, 2)) == 0 else {}),
            **({"refused_gridding_first": True} if draw(st.booleans()) else {})}


def run(ctx):
    def fn(c, case):
        check_case(c, case)
        c.record(case, nontrivial(case), case["k"] + ":" + case.get("plan", ""))

    ctx.drive(cases(max_events=ctx.n(40, 200)), ctx.n(400, 4000), fn=fn, salt=1)
    ctx.drive(spatial_cases(), ctx.n(100, 1000), fn=fn, salt=2)
