"""C12 - catalog-forecast files decode to exactly the catalogs they encode."""
import itertools
import os
import tempfile

from hypothesis import strategies as st

from pbt import files
from pbt.core import call, draw_tz, workdir

PROP = "C12"
TECHNIQUE = "bounded exhaustive enumeration of all short encodings (state-machine transition coverage) + Hypothesis-sampled long forecasts vs. the generating list (round trip through a reference encoder); negative cases with decreasing ids must be rejected"
RULE = ("(after a refused file the well-formed one is written under the same name and loaded, a judged direct load first) exhaustive: n <= 5 catalogs x 0..2 events each x placeholder/omitted for every empty non-final catalog x header yes/no (2046 files), "
        "each loaded through CSEPCatalog.load_ascii_catalogs, csep.load_stochastic_event_sets and iteration of csep.load_catalog_forecast; "
        "sampled: up to 400 catalogs with long gaps, leading gaps, consecutive placeholders, times with/without fractional seconds, ids with "
        "delimiters/quotes; negative: two id groups swapped so ids decrease => ValueError. Non-trivial = encoding with an omitted empty "
        "catalog adjacent to a non-empty one; distinct = canonical JSON.")
ASSUMPTIONS = ["files are written by pbt/files.py from the format description (lon,lat,mag,time_string,depth,catalog_id,event_id; placeholder ',,,,,id,'; final id always present)",
               "event ids are non-empty printable ASCII; fields containing delimiters are quoted per RFC 4180 (csv module)",
               "origin times compared in integer milliseconds"]
SHARDS = {"quick": 8, "thorough": 16}


def mk_event(ci, k, frac_ms=True, eid=None, salt=0):
    """distinct values per (catalog, position) so a misplaced event is visible"""
    # spread over 1906..2190 (which milliseconds survive float seconds depends on the era)
    t = -2000000000000 + ((salt * 1000003 + ci * 7919 + k * 104729 + 1) * 99991) % 8900000000000
    if not frac_ms:
        t -= t % 1000
    elif (ci + k) % 3 == 0:
        t -= t % 100         # tenths of a second: written with one fraction digit by the 'short' time format
    if ci == 0 and k == 0 and salt % 4 == 0:
        t = (0, 0, -1, 1, 1000, -1000)[(salt // 4) % 6]   # exactly at / next to 1970-01-01T00:00:00
    lat, lon, depth = 30.0 + ci + k / 8.0, -120.0 + ci / 2.0 + k / 16.0, 5.0 + k
    if (ci + 2 * k + salt) % 5 == 0:
        # values below 1e-4 in size: repr / str / csv write them in exponent notation (2.5e-05)
        lat, lon, depth = (2.5e-05, -5e-05, 1e-05)[(ci + k) % 3] * (1 + ci), lon, (1.25e-05, 5e-06)[k % 2]
    if (ci + 3 * k + salt) % 7 == 0:
        lon = (180.0, 181.25, 359.5, -180.0)[(ci + k) % 4]      # written as given, read as given (no wrapping of longitudes)
    return (eid or "c%de%d" % (ci, k), t, lat, lon, depth, 4.0 + ci / 10.0 + k / 100.0)


def build(case):
    cats = []
    for ci, c in enumerate(case["cats"]):
        if isinstance(c, int):
            cats.append([mk_event(ci, k, case.get("frac", True), salt=case.get("tsalt", 0)) for k in range(c)])
        else:
            cats.append([tuple(e) for e in c])
    return cats


def rows_of(cat):
    out = []
    for r in cat.catalog.tolist():
        out.append((r[0].decode("utf-8", "backslashreplace") if isinstance(r[0], bytes) else str(r[0]),) + tuple(r[1:]))
    return out


def loaders(path, n=None):
    import csep
    from csep.core.catalogs import CSEPCatalog

    def third_pass():
        # the file is decoded anew on every pass of a forecast that does not store its catalogs: the third pass like the first
        fc = csep.load_catalog_forecast(path, store=False)
        for _ in range(2):
            for _c in fc:
                pass
        return [c for c in fc]

    def second_pass_known_size():
        fc = csep.load_catalog_forecast(path, n_cat=n)
        for _c in fc:
            pass
        return [c for c in fc]
    extra = (("load_catalog_forecast:third_pass_without_store", third_pass),) + \
            ((("load_catalog_forecast:second_pass_with_n_cat_given", second_pass_known_size),) if n else ())
    return extra + (("load_ascii_catalogs", lambda: list(CSEPCatalog.load_ascii_catalogs(path))),
            ("load_stochastic_event_sets", lambda: list(csep.load_stochastic_event_sets(path, type="csv"))),
            ("load_stochastic_event_sets:format_csep", lambda: list(csep.load_stochastic_event_sets(path, type="csv", format="csep"))),
            ("load_catalog_forecast", lambda: [c for c in csep.load_catalog_forecast(path)]))


def as_path(case, path):
    """file names are accepted as str and as pathlib.Path"""
    import pathlib
    return pathlib.Path(path) if case.get("pathlib") else path


def check_case(ctx, case):
    cats = build(case)
    n = len(cats)
    with workdir() as d:
        path = os.path.join(d, "forecast.csv")
        files.write_catalog_forecast(path, cats, case["enc"], header=case["header"], frac=case.get("timefmt", "auto"),
                                     eol=case.get("eol", "\r\n"), final_newline=case.get("final_newline", True))
        if case.get("swap") is not None:
            # negative case: swap the row groups of two different catalog ids so that ids decrease somewhere
            eol = case.get("eol", "\r\n")
            lines = [l + eol for l in open(path, newline="").read().split(eol) if l != ""]   # every row keeps its own terminator when moved
            head = lines[:1] if case["header"] else []
            body = lines[1:] if case["header"] else lines
            import csv, io
            ids = [next(csv.reader(io.StringIO(l)))[5] for l in body]
            groups = [list(g) for _, g in itertools.groupby(range(len(body)), key=lambda i: ids[i])]
            if len(groups) < 2:
                ctx.count("skipped:swap_needs_two_groups")
                return
            a = case["swap"] % (len(groups) - 1)
            groups[a], groups[a + 1] = groups[a + 1], groups[a]
            with open(path, "w", newline="") as f:
                f.write("".join(head + [body[i] for g in groups for i in g]))
            for name, f in loaders(as_path(case, path)):
                o = call(f)
                if o.ok:
                    ctx.violation("decreasing_ids_accepted:" + name, {"n_loaded": len(o.value)})
                elif not isinstance(o.exc, ValueError):
                    ctx.unexpected(o, "negative:" + name)
            # ... and the well-formed file, written under the same name right after the refused one, decodes to its catalogs
            files.write_catalog_forecast(path, cats, case["enc"], header=case["header"], frac=case.get("timefmt", "auto"),
                                         eol=case.get("eol", "\r\n"), final_newline=case.get("final_newline", True))
            ctx.count("well_formed_file_loaded_after_a_refused_one")
        order = loaders(as_path(case, path), n)
        if case.get("swap") is not None:
            # right after a refused load the FIRST pass over the well-formed file is a judged one (a different loader from case to case)
            k = 2 + case["swap"] % (len(order) - 2) if len(order) > 3 else 0
            order = order[k:] + order[:k]
        for name, f in order:
            o = call(f)
            if not o.ok:
                ctx.unexpected(o, name + (":pathlib" if case.get("pathlib") else ""))
                continue
            got = o.value
            if len(got) != n:
                ctx.violation("wrong_number_of_catalogs:" + name, {"got": len(got), "want": n, "sizes": [c.event_count for c in got][:12]})
                continue
            ids = [c.catalog_id for c in got]
            if ids != list(range(n)):
                ctx.violation("catalog_ids_wrong:" + name, {"got": ids[:12]})
            for i, (c, want) in enumerate(zip(got, cats)):
                r = rows_of(c)
                if len(r) != len(want):
                    ctx.violation("catalog_event_count_wrong:" + name, {"catalog": i, "got": len(r), "want": len(want), "sizes": [x.event_count for x in got][:12]})
                    break
                if r != [tuple(w) for w in want]:
                    bad = next(k for k in range(len(r)) if r[k] != tuple(want[k]))
                    fld = [j for j in range(6) if r[bad][j] != want[bad][j]]
                    ctx.violation("event_fields_wrong:%s:%s" % (name, ",".join(("id", "time", "lat", "lon", "depth", "mag")[j] for j in fld)),
                                  {"catalog": i, "event": bad, "got": list(r[bad]), "want": list(want[bad])})
                    break


def nontrivial(case):
    c = case["cats"]
    size = [x if isinstance(x, int) else len(x) for x in c]
    for i in range(len(c) - 1):
        if size[i] == 0 and case["enc"][i] == "omit" and ((i > 0 and size[i - 1] > 0) or size[i + 1] > 0):
            return True
    return False


def enumerate_short(max_n=5, max_ev=2):
    for n in range(1, max_n + 1):
        for sizes in itertools.product(range(max_ev + 1), repeat=n):
            empties = [i for i in range(n - 1) if sizes[i] == 0]
            for choice in itertools.product(("placeholder", "omit"), repeat=len(empties)):
                enc = ["placeholder"] * n
                for i, ch in zip(empties, choice):
                    enc[i] = ch
                for header in (False, True):
                    yield {"cats": list(sizes), "enc": enc, "header": header}


def make_long_cases(max_n):
    ids = st.one_of(st.text(alphabet=st.characters(min_codepoint=33, max_codepoint=126), min_size=1, max_size=12),
                    st.text(alphabet=st.characters(min_codepoint=33, max_codepoint=126), min_size=1, max_size=12),
                    # right-justified / padded ids: leading and trailing blanks belong to the id
                    st.integers(0, 10**6).map(lambda v: "%8d" % v), st.sampled_from(["   71234", " a", "b ", "  x  y "]),
                    # long ids (uuid / URN style: 36..120 characters, many sharing their first 40)
                    st.integers(0, 10**9).map(lambda v: "quakeml:org.example/event/%s-%09d" % ("0" * 16, v)),
                    st.text(alphabet=st.characters(min_codepoint=48, max_codepoint=122), min_size=33, max_size=120))

    @st.composite
    def long_cases(draw):
        n = draw(st.one_of(st.integers(1, 20), st.integers(1, max_n)))
        pattern = draw(st.sampled_from(["sparse", "dense", "leading_gap", "blocks"]))
        sizes = []
        for i in range(n):
            if pattern == "sparse":
                sizes.append(draw(st.sampled_from([0] * 12 + [1, 2, 5])))
            elif pattern == "dense":
                sizes.append(draw(st.sampled_from([0, 1, 1, 2, 3])))
            elif pattern == "leading_gap":
                sizes.append(0 if i < n // 2 else draw(st.sampled_from([0, 1, 2])))
            else:
                sizes.append(0 if (i // 7) % 2 else draw(st.sampled_from([1, 2])))
        encs = draw(st.sampled_from(["omit", "placeholder", "mixed"]))
        enc = [encs if encs != "mixed" else draw(st.sampled_from(["omit", "placeholder"])) for _ in range(n)]
        fancy = draw(st.booleans())
        cats = []
        for ci, s in enumerate(sizes):
            if fancy and s:
                cats.append([list(mk_event(ci, k, draw(st.booleans()), eid=draw(ids))) for k in range(s)])
            else:
                cats.append(s)
        return draw_tz(draw, {"cats": cats, "enc": enc, "header": draw(st.booleans()), "frac": draw(st.booleans()),
                "timefmt": draw(st.sampled_from(["auto", "us", "ms", "short"])), "eol": draw(st.sampled_from(["\n", "\r\n"])), "final_newline": draw(st.booleans()),
                **({"swap": draw(st.integers(0, 50))} if draw(st.integers(0, 5)) == 0 else {}), **({"pathlib": True} if draw(st.integers(0, 3)) == 0 else {})})
    return long_cases()


def fuzz_strategy(ctx):
    return make_long_cases(60)


def run(ctx):
    max_n = ctx.n(5, 6)
    max_ev = ctx.n(2, 3)
    for i, case in enumerate(enumerate_short(max_n, max_ev)):
        if i % ctx.nshards != ctx.shard:
            continue
        case["frac"] = (i % 3 != 0)
        case["tsalt"] = i
        case["eol"] = "\n" if i % 2 else "\r\n"
        case["final_newline"] = bool((i // 2) % 2)
        case["timefmt"] = ("auto", "us", "ms")[i % 3] if case["frac"] else "auto"
        ctx.check(case)
        ctx.record(case, nontrivial(case), "exhaustive")
    ctx.exhaustive["n<=%d catalogs x 0..%d events x placeholder/omit x header, 3 loaders" % (max_n, max_ev)] = True
    # negative: every short encoding with >= 2 id groups, one swap position
    for i, case in enumerate(enumerate_short(4, 2)):
        if i % ctx.nshards != ctx.shard or i % 2:
            continue
        case["swap"] = i // 2
        ctx.check(case)
        ctx.record(case, True, "negative")

    long_cases = lambda: make_long_cases(ctx.n(400, 2000))

    def fn(c, case):
        check_case(c, case)
        small = case if len(case["cats"]) <= 30 else {"n": len(case["cats"]), "sizes_head": [x if isinstance(x, int) else len(x) for x in case["cats"][:30]],
                                                       "enc_head": case["enc"][:30], "header": case["header"], "timefmt": case["timefmt"]}
        c.record(small, nontrivial(case), "sampled" + (":negative" if "swap" in case else ""))

    ctx.drive(long_cases(), ctx.n(40, 400), fn=fn, salt=1)
