"""C06 - simulated catalogs follow the forecast by exact inverse-CDF and conserve counts."""
import math
from fractions import Fraction
from unittest import mock

import numpy
from hypothesis import strategies as st

from pbt import gridded as G
from pbt.core import call

PROP = "C06"
TECHNIQUE = "Hypothesis-generated rate arrays (general and dyadic, with zero-rate bins) x constructed uniform draws on/next to every cumulative boundary vs. exact rational inverse-CDF reference; seeded reruns compared bit for bit; quantile recomputed from the returned distribution"
RULE = ("one case = forecast (rates pairwise distinct; 'dyadic' variant: multiples of 2^-6 summing to a power of two so cumulative "
        "boundaries are exact doubles) x observed catalog x 1..6 simulations whose injected uniform numbers are constructed per class: 0.0, "
        "largest double below 1, exactly a boundary F_k and its two neighbours (dyadic only), interior of a chosen bin (1 case in 6 hands in a pool with 1..3 more rows than simulations: length and quantile judged); run through Poisson "
        "CL/S/M, binary S/CL and Brier tests; plus seeded runs (seed 0, 1, 2^31-1, random) of all seven tests repeated under different global "
        "RNG states, with soft spies on the simulators; plus resampled-M / MLL seeded reruns. Non-trivial = rate array with >= 1 zero-rate bin "
        "and >= 1 boundary-adjacent or extreme draw; distinct = canonical JSON.")
ASSUMPTIONS = ["bin of u is the unique k with F_(k-1) <= u < F_k computed with exact Fractions of the float rates",
               "general (non-dyadic) arrays: boundary-adjacent draws are not generated (the float cumulative sum legitimately differs from the exact one by ulps); 0.0 and 1-2^-53 are",
               "integer-rate arrays (exact cumulative sums, rational boundaries F_k): draws at pred(fl(F_k)) and succ(fl(F_k)), which lie strictly below / above F_k; fl(F_k) itself only when it equals F_k",
               "injected numbers for binary/Brier tests hit pairwise distinct bins (the prescribed number of *active cells* is otherwise not defined)",
               "statistic oracles as in C05/C16; tolerance 1e-9*(1+sum|terms|) resp. eps/lambda",
               "resampled-M / MLL cases have >= 2 magnitude edges (the tests take the bin width from the first two edges)",
               "seeded binary/Brier runs only when n_active bins of relative weight >= 1e-2 exist (bounded expected number of rejection draws); a run exceeding 200x that bound in *number of uniform draws* (not time) is reported as unreachable-bin violation",
               "L-test count law: over 3000 seeded simulations the simulated sizes have mean within 6 sigma of the forecast total and variance within +-30% of it (a statistical sub-check with deterministic seeds; the bounds are > 6 sigma wide)",
               "soft spies wrap module attributes _simulate_catalog; skipped (and counted) if absent"]
SHARDS = {"quick": 8, "thorough": 16}
ONE_MINUS = math.nextafter(1.0, 0.0)


class DrawBudgetExceeded(Exception):
    pass


def reachable(weights, n_act, pmin=1e-2):
    """the rejection sampler needs n_act distinct bins: demand that many bins of relative weight >= pmin, so the expected
    number of uniform draws is <= n_act/pmin (each missing bin is hit with probability >= pmin per draw)"""
    tot = math.fsum(weights)
    return sum(1 for x in weights if x / tot >= pmin) >= n_act


def make_u(F, k, mode, t, dyadic):
    """uniform number for bin k according to mode; returns (u, expected bin)
    dyadic = True  : boundaries are exact doubles, draws on and next to them
    dyadic = "int" : integer rates with an arbitrary total: F_k is rational, f = fl(F_k) its nearest double; draws at pred(f)
                     (certainly below F_k -> bin k) and succ(f) (certainly above -> next bin); f itself only when f == F_k"""
    if mode == "zero":
        u = 0.0
    elif mode == "max":
        u = ONE_MINUS
    elif dyadic == "int" and mode in ("lo", "lo+", "lo-", "hi-"):
        lo, hi = F[k], F[k + 1]
        flo, fhi = float(lo), float(hi)
        if mode == "lo":
            u = flo if Fraction(flo) == lo else math.nextafter(flo, 2.0)
        elif mode == "lo+":
            u = math.nextafter(flo, 2.0)
        elif mode == "lo-":
            u = math.nextafter(flo, -1.0)
        else:
            u = math.nextafter(fhi, -1.0)
        if not (0.0 <= u < 1.0):
            u = 0.0
    elif dyadic and mode in ("lo", "lo+", "lo-", "hi-"):
        a, b = float(F[k]), float(F[k + 1])
        u = {"lo": a, "lo+": math.nextafter(a, 2.0), "lo-": math.nextafter(a, -1.0), "hi-": math.nextafter(b, -1.0)}[mode]
        if not (0.0 <= u < 1.0):
            u = a if 0.0 <= a < 1.0 else 0.0
    else:
        u = G.draw_in_bin(F, k, t) or G.draw_in_bin(F, k, 0.5)
        if u is None:
            return None, None
    return u, G.bin_of(F, u)


def plan_draws(weights, sims, n, dyadic, distinct_bins):
    """sims: list of lists of [mode, r, t]. Returns (U, B) or (None, None) if not constructible."""
    F = G.cdf_bounds(weights)
    pos = [k for k in range(len(weights)) if F[k + 1] > F[k]]
    U, B = [], []
    for sim in sims:
        us, bs = [], []
        if distinct_bins:
            if n > len(pos):
                return None, None
            start = int(sim[0][1] * len(pos)) if sim else 0
            if sim and sim[0][0] == "max":
                start = len(pos) - n              # window ending at the last positive-rate bin
            elif sim and sim[0][0] == "zero":
                start = 0
            chosen = [pos[(start + j) % len(pos)] for j in range(n)]
            if sim and sim[0][0] == "max":
                chosen = chosen[::-1]             # the "max" draw (first in the list) goes to the last bin
        for j in range(n):
            mode, r, t = sim[j]
            k = chosen[j] if distinct_bins else pos[min(int(r * len(pos)), len(pos) - 1)]
            if distinct_bins and mode == "max" and k == pos[-1]:
                pass                              # 1 - 2^-53 belongs to the last positive-rate bin
            elif distinct_bins and mode == "zero" and k == pos[0]:
                pass                              # 0.0 belongs to the first positive-rate bin
            elif distinct_bins and mode in ("zero", "max", "lo-"):
                mode = "lo" if dyadic else "in"   # keep the draw inside its own bin so bins stay distinct
            u, b = make_u(F, k, mode, t, dyadic)
            if u is None:
                return None, None
            us.append(u)
            bs.append(b)
        if distinct_bins and len(set(bs)) != len(bs):
            return None, None
        U.append(us)
        B.append(bs)
    return U, B


def counts_of(bs, n):
    c = [0.0] * n
    for b in bs:
        c[b] += 1
    return c


def check_case(ctx, case):
    if case["k"] == "catalog_mtests":
        return check_catalog_mtests(ctx, case)
    if case["k"] == "l_count_law":
        return check_l_count_law(ctx, case)
    from csep.core import poisson_evaluations as P, binomial_evaluations as Bn, brier_evaluations as Br
    S = G.Setup(case)
    region = S.region()
    fore = S.forecast(region)
    w = S.counts()
    n_obs = int(w.sum())
    dyadic = case.get("dyadic", False)
    # a single-precision forecast: statistics are computed in single precision (placement is still decided exactly: dyadic rates)
    F32 = case.get("rate_dtype") == "float32"
    nsim = len(case["sims"])
    flat = S.rates.ravel().tolist()
    sp = [math.fsum(r) for r in S.rates.tolist()] if not dyadic else S.rates.sum(axis=1).tolist()
    mg = S.rates.sum(axis=0).tolist()
    n_fore = math.fsum(flat)

    def quantile_ok(name, res):
        td = [float(x) for x in res.test_distribution]
        q = float(res.quantile)
        want = sum(1 for x in td if x <= float(res.observed_statistic)) / len(td) if td else None
        if want is not None and q != want:
            ctx.violation(name + ":quantile_not_fraction_le", {"got": q, "want": want})
        if not (0.0 <= q <= 1.0):
            ctx.violation(name + ":quantile_out_of_range", {"got": q})

    # "extra_rows": the injected pool holds more rows than simulations are asked for; num_simulations stays the number of simulations
    # (distribution length, denominator of the quantile).  Which rows are used is not prescribed: the per-row oracle is skipped then.
    XR = int(case.get("extra_rows", 0))

    def pool(U, width):
        a = numpy.array(U, dtype=float).reshape(nsim, width)
        if XR:
            ctx.count("injected_pools_with_more_rows_than_simulations")
            a = numpy.vstack([a] + [a[:1]] * XR)
        if case.get("numbers_as") == "readonly":
            a.setflags(write=False)         # the caller's numbers, not to be written to
        elif case.get("numbers_as") == "fortran":
            a = numpy.asfortranarray(a)
        return a

    # ------------------------------------------------ (a) injected path, Poisson
    if n_obs > 0:
        scale = n_obs / n_fore
        for name, fn, weights, rates in (("CL", P.conditional_likelihood_test, flat, flat),
                                         ("S", P.spatial_test, sp, [x * scale for x in sp]),
                                         ("M", P.magnitude_test, mg, [x * scale for x in mg])):
            U, B = plan_draws(weights, case["sims"], n_obs, dyadic, False)
            if U is None:
                ctx.count("skipped:unconstructible_draws:" + name)
                continue
            ctx.count("injected_draws", nsim * n_obs)
            o = call(fn, fore, S.catalog(region), num_simulations=nsim, random_numbers=pool(U, n_obs))
            if not o.ok:
                ctx.unexpected(o, "poisson_" + name + "_injected")
                continue
            td = list(o.value.test_distribution)
            if len(td) != nsim:
                ctx.violation(name + ":distribution_length", {"got": len(td), "want": nsim})
                continue
            for i in range(nsim if not XR else 0):
                want, at = G.poisson_ll(rates, counts_of(B[i], len(rates)))
                if not G.close(float(td[i]), want, (1e-9 if not F32 else 3e-6) * (1 + at)):
                    ctx.violation("poisson_" + name + ":simulated_event_not_in_inverse_cdf_bin", {"sim": i, "got": float(td[i]), "want": want, "u": U[i][:6], "bins": B[i][:6]})
                    break
            quantile_ok("poisson_" + name, o.value)
            # one more simulation whose injected numbers reproduce the observed catalog bin for bin: the simulated statistic is the
            # same function of the same counts and forecast as the observed one - equal bit for bit, a tie that counts (quantile 1)
            obins = {"CL": [k * S.nm + m for k, m in S.obs], "S": [k for k, m in S.obs], "M": [m for k, m in S.obs]}[name]
            Fw = G.cdf_bounds(weights)
            if all(Fw[b + 1] > Fw[b] for b in obins):
                us = [make_u(Fw, b, "in", 0.5, dyadic)[0] for b in obins]
                if all(u is not None for u in us):
                    ctx.count("simulations_reproducing_the_observation")
                    oc = call(fn, fore, S.catalog(region), num_simulations=1, random_numbers=numpy.array([us], dtype=float))
                    r = ctx.normalize("poisson_" + name + ":copy", lambda: (float(oc.value.test_distribution[0]), float(oc.value.observed_statistic), float(oc.value.quantile))) if oc.ok else None
                    if not oc.ok:
                        ctx.unexpected(oc, "poisson_" + name + "_copy_of_observation")
                    elif r is not None and (r[0] != r[1] or r[2] != 1.0) and not (math.isnan(r[0]) and math.isnan(r[1])):
                        ctx.violation("poisson_" + name + ":simulation_identical_to_observation_gets_another_statistic", {"simulated": r[0], "observed": r[1], "quantile": r[2]})
    # ------------------------------------------------ (a) injected path, binary / Brier
    act_cells = sorted(set(k for k, m in S.obs))
    act_bins = sorted(set(S.obs))
    for name, fn, weights, n_act, oracle in (
            ("binary_S", Bn.binary_spatial_test, sp, len(act_cells), "binary"),
            ("binary_CL", Bn.binary_conditional_likelihood_test, flat, len(act_bins), "binary"),
            ("brier", Br.brier_score_test, flat, len(act_bins), "brier")):
        if n_act == 0:
            continue
        U, B = plan_draws(weights, case["sims"], n_act, dyadic, True)
        if U is None:
            ctx.count("skipped:unconstructible_draws:" + name)
            continue
        o = call(fn, fore, S.catalog(region), num_simulations=nsim, random_numbers=pool(U, n_act))
        if not o.ok:
            ctx.unexpected(o, name + "_injected")
            continue
        td = list(o.value.test_distribution)
        if len(td) != nsim:
            ctx.violation(name + ":distribution_length", {"got": len(td), "want": nsim})
            continue
        for i in range(nsim if not XR else 0):
            c = counts_of(B[i], len(weights))
            if oracle == "binary":
                want, tol = G.binary_ll(weights, c)
            else:
                want, tol = G.brier(weights, c), 1e-12
            if not G.close(float(td[i]), want, tol if not F32 else max(tol, 3e-6 * (1 + abs(want)))):
                ctx.violation(name + ":simulated_event_not_in_inverse_cdf_bin", {"sim": i, "got": float(td[i]), "want": want, "u": U[i][:6], "bins": B[i][:6]})
                break
        quantile_ok(name, o.value)

    # ------------------------------------------------ (b) seeded path
    seed = numpy.int64(case["seed"]) if case.get("np_seed") else case["seed"]      # seeds are integers: Python int or numpy integer
    zero = numpy.array(flat) == 0
    for name, mod, fn, kind in (("poisson_L", P, P.likelihood_test, "poisson"), ("poisson_CL", P, P.conditional_likelihood_test, "poisson"),
                                ("poisson_S", P, P.spatial_test, "poisson_s"), ("poisson_M", P, P.magnitude_test, "poisson_m"),
                                ("binary_S", Bn, Bn.binary_spatial_test, "bin_s"), ("binary_CL", Bn, Bn.binary_conditional_likelihood_test, "bin"),
                                ("brier", Br, Br.brier_score_test, "bin")):
        runs = []
        seen = []
        orig = getattr(mod, "_simulate_catalog", None)
        budget = None
        if kind in ("bin", "bin_s"):
            n_act = len(act_cells) if kind == "bin_s" else len(act_bins)
            if not reachable(sp if kind == "bin_s" else flat, n_act):
                ctx.count("skipped:rejection_sampler_needs_rare_bins:" + name)
                continue
            budget = nsim * (3000 * n_act + 3000)   # expected <= 100*n_act per simulation; P(a bin of weight >= 1e-2 missed in 3000 draws) < 1e-13
        real_uniform = numpy.random.uniform
        ndraw = [0]

        def counted_uniform(*a, **k):
            ndraw[0] += 1
            if budget is not None and ndraw[0] > budget:
                raise DrawBudgetExceeded("more than %d uniform draws" % budget)
            return real_uniform(*a, **k)

        for rep, state in enumerate((111, 222)):
            numpy.random.seed(state)  # different global RNG state before each run: the result may depend on `seed` only
            ndraw[0] = 0
            if orig is not None and rep == 0:
                def spy(n, *a, _orig=orig, **k):
                    r = _orig(n, *a, **k)
                    seen.append((int(n), numpy.array(r, dtype=float).copy()))
                    return r
                with mock.patch.object(mod, "_simulate_catalog", spy), mock.patch.object(numpy.random, "uniform", counted_uniform):
                    o = call(fn, fore, S.catalog(region), num_simulations=nsim, seed=seed)
            else:
                # second run: simulation count and seed handed over positionally (documented order: forecast, catalog,
                # num_simulations, seed, random_numbers, verbose)
                with mock.patch.object(numpy.random, "uniform", counted_uniform):
                    o = call(fn, fore, S.catalog(region), nsim, seed)
            if not o.ok:
                if isinstance(o.exc, DrawBudgetExceeded):
                    ctx.violation(name + ":rejection_sampler_cannot_reach_positive_rate_bins", {"draws": ndraw[0], "n_active": n_act})
                else:
                    ctx.unexpected(o, name + "_seeded")
                break
            runs.append(o.value)
        if len(runs) < 2:
            continue
        a, b = runs
        ta, tb = [float(x) for x in a.test_distribution], [float(x) for x in b.test_distribution]
        same = (ta == tb or all((x == y) or (math.isnan(x) and math.isnan(y)) for x, y in zip(ta, tb)) and len(ta) == len(tb))
        if not same or float(a.quantile) != float(b.quantile) or repr(float(a.observed_statistic)) != repr(float(b.observed_statistic)):
            ctx.violation(name + ":not_deterministic_for_seed" + (":seed0" if seed == 0 else ""), {"seed": seed, "a": ta[:3], "b": tb[:3]})
        quantile_ok(name, a)
        if len(ta) != nsim:
            ctx.violation(name + ":distribution_length", {"got": len(ta), "want": nsim})
        # simulated statistics are finite: an event in a zero-rate bin would give -inf (Poisson / binary)
        if kind.startswith("poisson") and any(math.isinf(x) or math.isnan(x) for x in ta):
            ctx.violation(name + ":non_finite_simulated_statistic", {"td": ta[:5]})
        # seed AND injected uniform numbers together (L-test): the seed fixes the Poisson number of events of the first simulation
        # (N_1, seen in the seeded run above), the injected row supplies its N_1 uniform numbers; the result may depend on neither
        # the global generator state nor anything else
        if name == "poisson_L" and orig is not None and len(seen) == nsim and seen and 0 < seen[0][0] <= 400:
            n1 = seen[0][0]
            U1 = numpy.array([[(j + 0.5) / n1 for j in range(n1)]])
            outs = []
            for state in (333, 444):
                numpy.random.seed(state)
                for _ in range(state % 7):
                    numpy.random.poisson(3.0)
                outs.append(call(fn, fore, S.catalog(region), num_simulations=1, seed=seed, random_numbers=U1))
            ctx.count("L_tests_with_seed_and_injected_numbers")
            if outs[0].ok != outs[1].ok:
                ctx.violation("poisson_L:seed_plus_injected_numbers_depends_on_global_state", {"first": repr(outs[0])[:200], "second": repr(outs[1])[:200], "n1": n1})
            elif not outs[0].ok:
                ctx.unexpected(outs[0], "poisson_L_seed_plus_injected_numbers")
            else:
                t0_, t1_ = [float(x) for x in outs[0].value.test_distribution], [float(x) for x in outs[1].value.test_distribution]
                if t0_ != t1_ and not all(math.isnan(x) and math.isnan(y) for x, y in zip(t0_, t1_)):
                    ctx.violation("poisson_L:seed_plus_injected_numbers_depends_on_global_state", {"first": t0_[:3], "second": t1_[:3], "n1": n1})
        # soft spy: counts conserved, nothing in zero-rate bins
        if orig is None:
            ctx.count("skipped:no_spy:" + name)
        elif len(seen) == nsim:
            wts = {"poisson": flat, "bin": flat, "poisson_s": sp, "bin_s": sp, "poisson_m": mg}[kind]
            z = numpy.array(wts) == 0
            for i, (n, arr) in enumerate(seen):
                if arr.shape != z.shape:
                    continue
                if arr.sum() != n:
                    ctx.violation(name + ":simulated_count_not_prescribed", {"sum": float(arr.sum()), "n": n})
                if kind in ("poisson", "poisson_s", "poisson_m") and name != "poisson_L" and n != n_obs:
                    ctx.violation(name + ":prescribed_count_not_n_obs", {"n": n, "n_obs": n_obs})
                if kind in ("bin", "bin_s"):
                    want_n = len(act_cells) if kind == "bin_s" else len(act_bins)
                    if n != want_n or (arr > 1).any() or int((arr > 0).sum()) != want_n:
                        ctx.violation(name + ":active_cells_not_prescribed", {"n": n, "want": want_n, "active": int((arr > 0).sum()), "max": float(arr.max()) if arr.size else 0})
                if z.any() and arr[z].sum() != 0:
                    ctx.violation(name + ":event_simulated_in_zero_rate_bin", {"bins": numpy.nonzero(z & (arr > 0))[0].tolist()[:5]})
                    break


def check_l_count_law(ctx, case):
    """L-test: the number of simulated events is a Poisson draw with the forecast mean (statistical, 6-sigma bounds)."""
    from csep.core import poisson_evaluations as P
    S = G.Setup(case)
    region = S.region()
    mu = float(S.rates.sum())
    nsim = case["nsim"]
    counts = []
    orig = getattr(P, "_simulate_catalog", None)
    if orig is None:
        ctx.count("skipped:no_spy:l_count_law")
        return

    def spy(n, *a, **k):
        r = orig(n, *a, **k)
        counts.append(float(numpy.sum(r)))
        return r
    fore_l, cat_l = S.forecast(region), S.catalog(region)      # built outside the spy: the setup's own (unjudged) requests are not counted
    with mock.patch.object(P, "_simulate_catalog", spy):
        o = call(P.likelihood_test, fore_l, cat_l, num_simulations=nsim, seed=case["seed"])
    if not o.ok:
        ctx.unexpected(o, "likelihood_test_count_law")
        return
    if len(counts) != nsim:
        ctx.violation("poisson_L:number_of_simulations", {"got": len(counts), "want": nsim})
        return
    m = sum(counts) / nsim
    v = sum((c - m) ** 2 for c in counts) / (nsim - 1)
    if abs(m - mu) > 6 * math.sqrt(mu / nsim):
        ctx.violation("poisson_L:simulated_sizes_mean_not_forecast_total", {"mean": m, "forecast_total": mu, "n_obs": len(S.obs), "nsim": nsim})
    elif not (0.7 * mu <= v <= 1.3 * mu):
        ctx.violation("poisson_L:simulated_sizes_not_poisson_dispersed", {"variance": v, "forecast_total": mu, "nsim": nsim})


def check_catalog_mtests(ctx, case):
    """resampled-M and MLL: same seed => same result, for seed 0 too."""
    from csep.core import catalog_evaluations as CE
    from csep.core.forecasts import CatalogForecast
    S = G.Setup(case)
    region = S.region()
    seed = case["seed"]

    def forecast():
        cats = [S.catalog(region, obs=[tuple(x) for x in c], name="c%d" % i) for i, c in enumerate(case["cats"])]
        for i, c in enumerate(cats):
            c.catalog_id = i
        return CatalogForecast(catalogs=cats, n_cat=len(cats), region=region, start_time=G.T0, end_time=G.T1, name="cf")

    for name, fn in (("resampled_magnitude_test", CE.resampled_magnitude_test), ("MLL_magnitude_test", CE.MLL_magnitude_test)):
        runs = []
        for state in (111, 222):
            numpy.random.seed(state)
            o = call(fn, forecast(), S.catalog(region), seed=seed)
            if not o.ok:
                ctx.unexpected(o, name)
                break
            runs.append(o.value)
        if len(runs) < 2:
            continue
        ta = [float(x) for x in runs[0].test_distribution]
        tb = [float(x) for x in runs[1].test_distribution]
        if ta != tb or runs[0].quantile != runs[1].quantile:
            ctx.violation(name + ":not_deterministic_for_seed" + (":seed0" if seed == 0 else ""), {"seed": seed, "a": ta[:3], "b": tb[:3]})
        if any(math.isnan(x) or math.isinf(x) for x in ta):
            ctx.violation(name + ":non_finite_distribution", {"td": ta[:5]})
        q = runs[0].quantile
        if q[0] is not None and not (0 <= q[0] <= 1 and 0 <= q[1] <= 1):
            ctx.violation(name + ":quantile_out_of_range", {"q": list(q)})
        # the quantiles are fractions of the returned distribution: (simulated >= observed, simulated <= observed), repeated values
        # counted with their multiplicity (few events and bins give many repeats)
        qq = ctx.normalize(name + ":quantile", lambda: (float(q[0]), float(q[1]), float(runs[0].observed_statistic))) if q[0] is not None else None
        if qq is not None and ta and not math.isnan(qq[2]):
            ge = sum(1 for x in ta if x >= qq[2]) / len(ta)
            le = sum(1 for x in ta if x <= qq[2]) / len(ta)
            ctx.count("catalog_mtest_quantiles_recounted")
            if len(set(ta)) < len(ta):
                ctx.count("catalog_mtest_distributions_with_repeated_values")
            if abs(qq[0] - ge) > 1e-12 or abs(qq[1] - le) > 1e-12:
                ctx.violation(name + ":quantiles_not_the_fractions_of_the_distribution", {"got": [qq[0], qq[1]], "want": [ge, le], "n": len(ta)})


def nontrivial(case):
    if case["k"] == "l_count_law":
        return True
    if case["k"] != "gridded":
        return len(case["cats"]) >= 2
    zero = any(r == 0 for r in case["rates"])
    edgey = any(d[0] != "in" for s in case["sims"] for d in s)
    return zero and edgey


SEEDS = st.one_of(st.sampled_from([0, 0, 1, 2**31 - 1]), st.integers(0, 2**32 - 1))


@st.composite
def cases(draw, max_events=50):
    dyadic = draw(st.booleans())
    c = draw(G.setups(max_cells=12, max_mags=4, max_events=max_events, distinct=True))
    if dyadic:
        n = len(c["rates"])
        special = draw(st.integers(0, 7))
        if special == 0 and n >= 4:
            # all cumulative sums exact in binary, the last bin holds 2^-53 of the total: its lower cumulative bound is the largest
            # double below 1, which therefore belongs to that last bin
            vals = [0.0] * n
            vals[0], vals[1], vals[2], vals[-1] = 0.5, 0.25, 0.25 - 2.0 ** -53, 2.0 ** -53
            c["rates"] = vals
            c["dyadic"] = True
            c["obs"] = [o for o in c["obs"] if vals[o[0] * c["mags"]["n"] + o[1]] >= 0.25][:3]
        elif draw(st.booleans()):
            c["rates"] = draw(G.rate_arrays(n, dyadic=True))
            c["dyadic"] = True
            if special == 1:
                c["rate_dtype"] = "float32"        # multiples of 1/64: exact in single precision, sums too
        else:
            # small integer rates, arbitrary total (e.g. 10 or 49): exact cumulative sums, rational boundaries
            vals = [draw(st.integers(0, 9)) for _ in range(n)]
            if not any(vals):
                vals[draw(st.integers(0, n - 1))] = 3
            c["rates"] = [float(v) for v in vals]
            c["dyadic"] = "int"
    if not dyadic and draw(st.integers(0, 2)) == 0 and len(c["rates"]) >= 4:
        # general (non-dyadic) rates ending and/or starting with zero-rate bins: the float cumulative total may round below the
        # pairwise sum, and the draws 0.0 and 1-2^-53 must still land in the first / last bin of positive rate
        nz = draw(st.integers(1, min(3, len(c["rates"]) - 2)))
        where = draw(st.sampled_from(["tail", "tail", "head", "both"]))
        if where in ("tail", "both"):
            c["rates"][-nz:] = [0.0] * nz
        if where in ("head", "both"):
            c["rates"][:1] = [0.0]
        if not any(r > 0 for r in c["rates"]):
            c["rates"][1] = 0.37
        occupied = set(i * c["mags"]["n"] + j for i, j in c["obs"])
        c["obs"] = [o for o in c["obs"] if c["rates"][o[0] * c["mags"]["n"] + o[1]] > 0] or c["obs"][:0]
    n = max(len(c["obs"]), 1)
    k = draw(st.integers(1, 6))
    modes = ["in", "in", "zero", "max"] + (["lo", "lo+", "lo-", "hi-"] if dyadic else [])
    if draw(st.integers(0, 5)) == 0:
        c["extra_rows"] = draw(st.integers(1, 3))
    c["sims"] = [[[draw(st.sampled_from(modes)), draw(st.floats(0, 0.999999)), draw(st.sampled_from([0.5, 0.1, 0.9, 0.01, 0.99]))]
                  for _ in range(n)] for _ in range(k)]
    c["seed"] = draw(SEEDS)
    if draw(st.integers(0, 2)) == 0:
        c["np_seed"] = True
    if draw(st.integers(0, 3)) == 0:
        c["numbers_as"] = draw(st.sampled_from(["readonly", "fortran"]))
    c["k"] = "gridded"
    return c


@st.composite
def mtest_cases(draw):
    c = draw(G.setups(max_cells=6, max_mags=5, max_events=20))
    if c["mags"]["n"] < 2:
        # the resampled tests take the bin width from the first two magnitude edges
        c["mags"]["n"] = 2
        c["rates"] = c["rates"] + c["rates"]
        c["obs"] = [[k, 0] for k, m in c["obs"]]
    if not c["obs"]:
        c["obs"] = [[0, 0]]
    nc, nm = len(c["region"]["cells"]), c["mags"]["n"]
    ncat = draw(st.integers(1, 8))
    cats = [draw(st.lists(st.tuples(st.integers(0, nc - 1), st.integers(0, nm - 1)).map(list), max_size=12)) for _ in range(ncat)]
    if not any(cats):
        cats[0] = [[0, 0]]
    c["cats"] = cats
    c["seed"] = draw(SEEDS)
    c["k"] = "catalog_mtests"
    return c


@st.composite
def l_count_cases(draw):
    c = draw(G.setups(max_cells=6, max_mags=3, max_events=60, lo=-2, hi=0))
    # forecast total between 0.5 and 50, observed count unrelated to it
    tot = sum(c["rates"]) or 1.0
    target = draw(st.sampled_from([0.5, 1.0, 3.0, 10.0, 50.0]))
    c["rates"] = [r * target / tot for r in c["rates"]]
    c["nsim"] = 3000
    c["seed"] = draw(st.integers(0, 2**31 - 1))
    c["k"] = "l_count_law"
    return c


def run(ctx):
    ctx.drive(l_count_cases(), ctx.n(3, 20), fn=lambda c, case: (check_case(c, case), c.record(case, True, "l_count_law")), salt=3)

    def fn(c, case):
        check_case(c, case)
        c.record(case, nontrivial(case), case["k"] + (":%s" % ("integer_rates" if case.get("dyadic") == "int" else "dyadic") if case.get("dyadic") else ""))

    ctx.drive(cases(max_events=ctx.n(50, 120)), ctx.n(300, 3000), fn=fn, salt=1)
    ctx.drive(mtest_cases(), ctx.n(100, 800), fn=fn, salt=2)
