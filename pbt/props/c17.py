"""C17 - quadtree grids tile the globe and locate points in their containing tile."""
import math
from fractions import Fraction

import numpy
from hypothesis import strategies as st

from pbt import exact, quad
from pbt.core import call

PROP = "C17"
TECHNIQUE = "Hypothesis-generated quadtree grids (single resolution, catalog-refined, pruned prefix-free key sets, shipped California grid) with constructed corner/ulp/antimeridian/pole probe points vs. independent Web-Mercator tile arithmetic; refinement validity predicate; area identity"
RULE = ("one case = grid (single resolution zoom 1..6; from_catalog over clustered/uniform/on-boundary epicentres x threshold 1..50 x max zoom "
        "2..8; random prefix-free pruned key set; California zoom-12 grid) probed at every (or a sample of) tile corner, centre, +-1 ulp of each "
        "bound, the antimeridian (-180, 180, largest double below 180), the Mercator latitude limits and neighbours, points outside partial "
        "grids; array lookups also as lists, read-only arrays and sorted by longitude / latitude. Checked: bounds vs. own formula, containment count exactly 1 inside [-180,180)x(-phi,phi) for global grids, get_index_of "
        "returns the west/south-inclusive tile or nothing, refinement predicate, sum of cell areas = band area, get_bbox. Non-trivial = "
        "multi-resolution grid probed at a corner shared by tiles of different zoom; distinct = canonical JSON.")
ASSUMPTIONS = ["tile bounds: lon = 360*x/2^z - 180 (exact), lat = degrees(atan(sinh(pi*(1-2y/2^z)))) (own implementation; agrees bit-for-bit with the library's dependency on all tiles tried)",
               "a latitude within 1e-9 deg of a horizontal tile line (other than bit-equal to the library's bound) is not used to decide containment",
               "points in no tile: scalar lookup gives an empty result, array lookup returns matches only (pinned by tests.test_spatial test_wrong_coordinates)",
               "areas on a sphere of radius 6371 km, relative tolerance 1e-9"]
SHARDS = {"quick": 8, "thorough": 16}
PHI = quad.lat_of(0, 1)  # 85.0511287798066


def build(case):
    from csep.core.regions import QuadtreeGrid2D, california_quadtree_region
    from csep.core.catalogs import CSEPCatalog
    g = case["grid"]
    if g["kind"] == "single":
        return QuadtreeGrid2D.from_single_resolution(g["zoom"])
    if g["kind"] == "keys":
        return QuadtreeGrid2D.from_quadkeys(list(g["keys"]))
    if g["kind"] == "california":
        return california_quadtree_region()
    if g["kind"] == "catalog":
        cat = CSEPCatalog(data=[("e%d" % i, i, p[1], p[0], 1.0, 5.0) for i, p in enumerate(g["points"])])
        return QuadtreeGrid2D.from_catalog(cat, g["threshold"], zoom=g["zoom"])
    raise ValueError(g["kind"])


def count_in(b, pts):
    w, s, e, n = b
    return sum(1 for x, y in pts if w <= x < e and s <= y < n)


def is_global(keys):
    """prefix-free and complete: sum 4^-len = 1 and no key is a prefix of another"""
    ks = sorted(keys)
    for a, b in zip(ks, ks[1:]):
        if b.startswith(a):
            return False
    return sum(Fraction(1, 4 ** len(k)) for k in keys) == 1


def check_case(ctx, case):
    o = call(build, case)
    if not o.ok:
        ctx.unexpected(o, "build:" + case["grid"]["kind"])
        return
    region = o.value
    keys = [str(k) for k in region.quadkeys]
    n = len(keys)
    if region.num_nodes != n or len(region.bounds) != n:
        ctx.violation("num_nodes_inconsistent", {"num_nodes": region.num_nodes, "keys": n})
        return
    g = case["grid"]
    # ---- keys: single resolution / from_catalog must be prefix-free and complete
    if g["kind"] in ("single", "catalog"):
        if not is_global(keys):
            ctx.violation("keys_not_a_complete_prefix_free_tiling", {"n": n, "sum": float(sum(Fraction(1, 4 ** len(k)) for k in keys))})
            return
    if g["kind"] == "single" and (n != 4 ** g["zoom"] or any(len(k) != g["zoom"] for k in keys)):
        ctx.violation("single_resolution_wrong_keys", {"n": n})
    # ---- bounds vs own formula
    mine = [quad.bounds(k) for k in keys]
    lib = numpy.asarray(region.bounds, dtype=float)
    for i in range(n):
        w, s, e, nn = mine[i]
        if lib[i, 0] != w or lib[i, 2] != e or abs(lib[i, 1] - s) > 1e-9 or abs(lib[i, 3] - nn) > 1e-9:
            ctx.violation("tile_bounds_wrong", {"key": keys[i], "got": lib[i].tolist(), "want": [w, s, e, nn]})
            return
    b = [(mine[i][0], float(lib[i, 1]), mine[i][2], float(lib[i, 3])) for i in range(n)]  # exact lon, library's lat (within 1e-9 of mine)
    glob = is_global(keys)
    # ---- refinement validity (catalog grids)
    if g["kind"] == "catalog":
        pts = [tuple(p) for p in g["points"]]
        thr, zmax = g["threshold"], g["zoom"]
        decidable = all(min(abs(y - t) for t in (-PHI, PHI)) > 1e-9 for _, y in pts)
        # points on horizontal tile lines other than the equator are not decidable independently
        for i, k in enumerate(keys):
            c = count_in(b[i], pts)
            if c > thr and len(k) < zmax:
                ctx.violation("leaf_above_threshold_below_max_zoom", {"key": k, "count": c, "threshold": thr, "max_zoom": zmax})
                break
            if len(k) > zmax:
                ctx.violation("leaf_deeper_than_max_zoom", {"key": k, "max_zoom": zmax})
                break
        parents = set(k[:-1] for k in keys if len(k) > 1)
        for p in parents:
            c = count_in(quad.bounds(p), pts)
            if c <= thr:
                ctx.violation("split_cell_at_or_below_threshold", {"key": p, "count": c, "threshold": thr})
                break
    # ---- probe points
    sel = case.get("sel")
    idxs = list(range(n)) if sel is None else sorted(set(i % n for i in sel))
    pts = []
    for i in idxs:
        w, s, e, nn = b[i]
        cx, cy = (w + e) / 2, (s + nn) / 2
        pts += [(w, s), (cx, cy), (w, cy), (cx, s), (math.nextafter(e, -1e9), cy), (cx, math.nextafter(nn, -1e9)),
                (math.nextafter(w, -1e9), cy), (cx, math.nextafter(s, -1e9)), (e, cy), (cx, nn), (e, nn), (w, nn), (e, s),
                (math.nextafter(w, 1e9), math.nextafter(s, 1e9))]
    pts += [(-180.0, 0.0), (180.0, 0.0), (math.nextafter(180.0, 0.0), 0.0), (-180.0, 10.0), (0.0, 0.0), (0.0, math.nextafter(PHI, 0.0)),
            (0.0, PHI), (0.0, math.nextafter(PHI, 90.0)), (0.0, -PHI), (0.0, math.nextafter(-PHI, 0.0)), (0.0, math.nextafter(-PHI, -90.0)),
            (10.0, 89.0), (10.0, -89.0), (math.nextafter(-180.0, 0.0), -10.0), (179.99, 84.9)]
    pts += [tuple(p) for p in case.get("extra", [])]
    pts = [(max(-180.0, min(180.0, x)), max(-90.0, min(90.0, y))) for x, y in pts]
    ctx.count("points", len(pts))
    libb = lib
    for (x, y) in pts[: case.get("max_points", 10**9)]:
        c1 = {"grid": g, "extra": [[x, y]], "sel": []}
        # containing tiles by the library's own bounds (disjointness / coverage)
        inside = numpy.nonzero((x >= libb[:, 0]) & (y >= libb[:, 1]) & (x < libb[:, 2]) & (y < libb[:, 3]))[0]
        in_band = -180.0 <= x < 180.0 and -PHI < y < PHI and min(abs(y - PHI), abs(y + PHI)) > 1e-9
        if len(inside) > 1:
            ctx.violation("tiles_overlap", {"pt": [x, y], "tiles": [keys[i] for i in inside[:4]]}, c1)
        if glob and in_band and len(inside) == 0:
            ctx.violation("global_grid_does_not_cover_point", {"pt": [x, y]}, c1)
        # oracle tile (own arithmetic)
        want = [i for i in range(n) if b[i][0] <= x < b[i][2] and b[i][1] <= y < b[i][3]] if n <= 5000 else list(inside)
        o = call(region.get_index_of, [x], [y])
        o2 = call(region.get_index_of, float(x), float(y))
        if not o.ok or not o2.ok:
            ctx.unexpected(o if not o.ok else o2, "get_index_of", c1)
            continue
        got = [int(v) for v in numpy.atleast_1d(o.value)]
        got2 = [int(v) for v in numpy.atleast_1d(o2.value)]
        if got != got2:
            ctx.violation("scalar_and_array_lookup_disagree", {"pt": [x, y], "array": got, "scalar": got2}, c1)
        if len(want) == 1:
            if got != want:
                ctx.violation("point_not_mapped_to_containing_tile", {"pt": [x, y], "got": [keys[i] if 0 <= i < len(keys) else "index %d of %d" % (i, len(keys)) for i in got], "want": keys[want[0]], "bounds": list(b[want[0]])}, c1)
        elif len(want) == 0 and got:
            ctx.violation("point_in_no_tile_was_mapped", {"pt": [x, y], "got": [keys[i] if 0 <= i < len(keys) else "index %d of %d" % (i, len(keys)) for i in got]}, c1)
    # array lookup returns matches only, in order
    if len(pts) <= 4000:
        xs = [p[0] for p in pts]
        ys = [p[1] for p in pts]
        o = call(region.get_index_of, numpy.array(xs), numpy.array(ys))
        if not o.ok:
            ctx.unexpected(o, "get_index_of_array")
        else:
            singles = []
            for x, y in pts:
                r = numpy.atleast_1d(region.get_index_of([x], [y]))
                singles += [int(v) for v in r]
            if [int(v) for v in o.value] != singles:
                ctx.violation("array_lookup_not_matches_in_order", {"n_array": len(o.value), "n_single": len(singles)})
            # the same points in other legitimate representations and orders: read-only arrays, Python lists, sorted by longitude /
            # latitude (the quadtree lookup documents list / ndarray input only: tuples are not in its domain and not generated) (one point per match, so a sorted request must return the same multiset of tiles)
            ro_x, ro_y = numpy.array(xs), numpy.array(ys)
            ro_x.setflags(write=False)
            ro_y.setflags(write=False)
            for rep, ax, ay in (("lists", list(xs), list(ys)), ("readonly_arrays", ro_x, ro_y)):
                orp = call(region.get_index_of, ax, ay)
                if not orp.ok:
                    ctx.unexpected(orp, "get_index_of_array:" + rep)
                elif ctx.normalize("array_lookup:" + rep, lambda: [int(v) for v in numpy.atleast_1d(orp.value)]) != singles:
                    ctx.violation("array_lookup_depends_on_representation:" + rep, {"n": len(xs)})
            for rep, key in (("sorted_by_lon", lambda i: (xs[i], ys[i])), ("sorted_by_lat_desc", lambda i: (-ys[i], xs[i]))):
                order = sorted(range(len(xs)), key=key)
                orp = call(region.get_index_of, numpy.array([xs[i] for i in order]), numpy.array([ys[i] for i in order]))
                if not orp.ok:
                    ctx.unexpected(orp, "get_index_of_array:" + rep)
                elif sorted(ctx.normalize("array_lookup:" + rep, lambda: [int(v) for v in numpy.atleast_1d(orp.value)]) or []) != sorted(singles):
                    ctx.violation("array_lookup_depends_on_point_order:" + rep, {"n": len(xs)})
    # ---- areas
    o = call(region.get_cell_area)
    if not o.ok:
        ctx.unexpected(o, "get_cell_area")
    else:
        R2 = 6371.0 ** 2
        areas = numpy.asarray(o.value, dtype=float)
        if areas.shape != (n,):
            ctx.violation("cell_area_wrong_shape", {"got": list(areas.shape), "want": [n]})
            areas = None
        # asked again on the same grid: one area per cell, the same numbers
        o_again = call(region.get_cell_area)
        if areas is not None and (not o_again.ok or numpy.asarray(o_again.value).shape != (n,) or not numpy.array_equal(numpy.asarray(o_again.value, dtype=float), areas)):
            ctx.violation("cell_areas_change_when_asked_again", {"first": n, "second": repr(getattr(o_again, "exc", None)) if not o_again.ok else list(numpy.asarray(o_again.value).shape)})
        for i in (idxs[:200] if areas is not None else []):
            w, s, e, nn = b[i]
            # cancellation-free reference: sin(n) - sin(s) = 2 cos((n+s)/2) sin((n-s)/2); the library's own difference of two nearly
            # equal sines carries a relative error of about eps / (sin n - sin s) for tiny tiles, which is allowed for
            dsin = 2.0 * math.cos(math.radians((nn + s) / 2.0)) * math.sin(math.radians((nn - s) / 2.0))
            want = R2 * dsin * math.radians(e - w)
            if abs(areas[i] - want) > (1e-9 + 8 * 2.3e-16 / abs(dsin)) * want:
                ctx.violation("cell_area_wrong", {"key": keys[i], "got": float(areas[i]), "want": want})
                break
        if glob and areas is not None:
            want = 2 * math.pi * R2 * (math.sin(math.radians(PHI)) - math.sin(math.radians(-PHI)))
            tot = math.fsum(areas.tolist())
            if abs(tot - want) > 1e-9 * want:
                ctx.violation("areas_do_not_add_up_to_band", {"got": tot, "want": want})
    # ---- bbox
    o = call(region.get_bbox)
    if not o.ok:
        ctx.unexpected(o, "get_bbox")
    else:
        want = (min(t[0] for t in b), max(t[2] for t in b), min(t[1] for t in b), max(t[3] for t in b))
        if tuple(float(v) for v in o.value) != want:
            ctx.violation("bbox_wrong", {"got": [float(v) for v in o.value], "want": list(want)})


def nontrivial(case, nkeys_lengths=None):
    g = case["grid"]
    if g["kind"] == "keys":
        return len(set(len(k) for k in g["keys"])) >= 2
    if g["kind"] == "catalog":
        return len(g["points"]) > g["threshold"]
    return g["kind"] in ("single", "california")


def prune(draw, depth):
    """random prefix-free complete tiling down to `depth`, then optionally drop some leaves"""
    keys = list("0123")
    for _ in range(depth - 1):
        nxt = []
        for k in keys:
            if draw(st.integers(0, 2)) == 0:
                nxt += quad.children(k)
            else:
                nxt.append(k)
        keys = nxt
    return keys


@st.composite
def cases(draw):
    kind = draw(st.sampled_from(["single", "catalog", "catalog", "keys", "keys"]))
    if kind == "single":
        z = draw(st.integers(1, 5))
        g = {"kind": "single", "zoom": z}
        sel = None if z <= 3 else draw(st.lists(st.integers(0, 4 ** z - 1), min_size=5, max_size=40))
    elif kind == "keys":
        keys = prune(draw, draw(st.integers(2, 6)))
        if draw(st.booleans()) and len(keys) > 4:
            keep = draw(st.lists(st.booleans(), min_size=len(keys), max_size=len(keys)))
            keys = [k for k, kp in zip(keys, keep) if kp] or keys[:1]
        if draw(st.booleans()):
            keys = list(draw(st.permutations(keys)))
        g = {"kind": "keys", "keys": keys}
        sel = None if len(keys) <= 60 else draw(st.lists(st.integers(0, len(keys) - 1), min_size=5, max_size=40))
    else:
        mode = draw(st.sampled_from(["cluster", "uniform", "boundary", "tight_cluster"]))
        npts = draw(st.integers(0, 120))
        pts = []
        deep = None
        if mode == "tight_cluster":
            # a few events metres apart and a deep maximum zoom (tiles far below a square kilometre, also at high latitude): refinement
            # goes on until the threshold or the maximum zoom is reached, whatever the size of the tile
            cx, cy = draw(st.floats(-170, 170)), draw(st.sampled_from([0.3, 35.7, 79.0, 84.9, -84.9, -60.2]))
            npts = draw(st.integers(2, 12))
            for _ in range(npts):
                pts.append([cx + draw(st.floats(-1e-5, 1e-5)), cy + draw(st.floats(-1e-5, 1e-5))])
            deep = draw(st.one_of(st.integers(12, 20), st.integers(21, 27)))      # quadkeys of more than 23 digits too
        elif mode == "cluster":
            cx, cy = draw(st.floats(-170, 170)), draw(st.floats(-70, 70))
            for _ in range(npts):
                pts.append([cx + draw(st.floats(-3, 3)), cy + draw(st.floats(-3, 3))])
        elif mode == "uniform":
            for _ in range(npts):
                pts.append([draw(st.floats(-180, 179.999)), draw(st.floats(-84, 84))])
        else:
            for _ in range(npts):
                z = draw(st.integers(1, 6))
                x = draw(st.integers(0, 2 ** z - 1))
                pts.append([float(Fraction(x, 2 ** z) * 360 - 180), draw(st.sampled_from([0.0, 10.5, -33.25, 60.125]))])
            # events exactly on the date line: lon = 180 belongs to no tile (cells are east-exclusive) and is not counted anywhere
            for _ in range(draw(st.integers(0, 8))):
                pts.append([180.0, draw(st.sampled_from([0.0, 10.5, -33.25, 60.125, 5.0]))])
        g = {"kind": "catalog", "points": pts, "threshold": draw(st.sampled_from([1, 2, 3, 5, 10, 50])), "zoom": deep or draw(st.integers(2, 7))}
        sel = draw(st.lists(st.integers(0, 10**6), min_size=10, max_size=40))
    extra = draw(st.lists(st.tuples(st.floats(-180, 180), st.floats(-90, 90)).map(list), max_size=6))
    return {"grid": g, "sel": sel, "extra": extra}


def run(ctx):
    def fn(c, case):
        check_case(c, case)
        rec = case if len(str(case)) < 4000 else {"grid": {k: (v if k != "points" and k != "keys" else "%d items" % len(v)) for k, v in case["grid"].items()}, "sel": case["sel"]}
        c.record(rec, nontrivial(case), "grid:" + case["grid"]["kind"])

    ctx.drive(cases(), ctx.n(200, 1500), fn=fn, salt=1)
    # fixed members: single resolution 6 (thorough 7, 8) and the shipped California grid, sampled tiles
    fixed = [{"grid": {"kind": "single", "zoom": 6}, "sel": list(range(0, 4096, 37)), "extra": []},
             {"grid": {"kind": "california"}, "sel": list(range(0, 12540, 97)), "extra": [[-119.0, 35.0], [-100.0, 35.0], [-125.0, 42.0]]}]
    if ctx.tier == "thorough":
        fixed += [{"grid": {"kind": "single", "zoom": 7}, "sel": list(range(0, 4 ** 7, 331)), "extra": []},
                  {"grid": {"kind": "single", "zoom": 8}, "sel": list(range(0, 4 ** 8, 1999)), "extra": []}]
    for i, case in enumerate(fixed):
        if i % ctx.nshards == ctx.shard:
            ctx.check(case)
            ctx.record(case, True, "fixed:" + case["grid"]["kind"])
