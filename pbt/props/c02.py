"""C02 - 1-D binning is lower-inclusive, upper-exclusive, open at the top."""
from fractions import Fraction

import math

import numpy
from hypothesis import strategies as st

from pbt import exact
from pbt.core import call

PROP = "C02"
TECHNIQUE = "Hypothesis-generated edge grids with constructed ulp/slack neighbourhoods of every selected edge vs. exact rational binning oracle; generator outputs vs. correctly rounded decimal grid"
RULE = ("one case = an edge grid (decimal start, decimal step, n edges; built as correctly-rounded decimal grid, numpy.arange, "
        "the library's cleaner_range/magnitude_bins, integer grid, or a shipped region's xs/ys) x mode (closed/open) x input kind "
        "(ndarray, list, tuple, scalars, float32, int, read-only / big-endian / strided / zero-copy float64 arrays) with probe values constructed on selected edges (edge, +-1,2,3,4096 ulps, "
        "2x/10x/1000x slack below, bin centre), below the first edge and around/beyond the last; checked through bin1d_vec, "
        "discretize, CSEPCatalog.get_mag_idx/magnitude_counts, GriddedForecast.get_magnitude_index, plus the generators "
        "cleaner_range/magnitude_bins against the exact decimal grid. Non-trivial = grid with >= 3 edges and a probe equal to an "
        "edge other than the first; distinct = canonical JSON of the case.")
ASSUMPTIONS = ["edges are increasing and equally spaced to within float rounding of a decimal grid (the documented precondition)",
               "slack(v,k) = 4*eps(dtype)*(k+2)*(|e0|+|e1|+|v|): a value within slack below edge k may go to either neighbour (property text: "
               "'relative distance of order 1e-12, growing linearly with the bin index')",
               "closed mode: the last bin ends at edges[-1]+step; within 2*slack of that end both 'last bin' and 'out of range' are accepted",
               "single-edge grids are open-ended (pinned by tests/test_calc.py::test_bin1d_single_bin1)",
               "cleaner_range start values have a repr without exponent (it parses str(float(start)))",
               "values are finite doubles up to +-1.797e308; +-inf and NaN are not coordinates or magnitudes (the library's tolerance arithmetic gives inf-inf for -inf)"]
SHARDS = {"quick": 8, "thorough": 16}

STEPS = ["0.1", "0.05", "0.025", "0.2", "0.25", "0.5", "1", "2", "0.125", "0.15", "0.3", "0.01", "0.03", "0.06", "0.7", "0.4", "0.02",
         "0.07", "0.14", "0.55", "0.57", "0.35", "0.11", "0.09", "1.1", "0.6", "0.007"]


def hx(x):
    return float(x).hex()


def build_edges(case):
    """Returns (edges as float list or None on failure outcome, exact step Fraction)."""
    from csep.utils import calc
    from csep.core import regions
    kind = case["kind"]
    n = case["n"]
    step = exact.frac(case["step"])
    s = exact.frac(case["start"])
    if kind == "decimal":
        return exact.decimal_grid(case["start"], case["step"], n), step
    if kind == "int":
        return [int(s) + k * int(step) for k in range(n)], step
    sf, hf = exact.fl(s), exact.fl(step)
    ef = exact.fl(s + (n - 1) * step)
    if kind == "arange":
        e = numpy.arange(sf, exact.fl(s + (n - 1) * step + step / 2), hf)
        return [float(x) for x in e], step
    if kind == "cleaner":
        return [float(x) for x in calc.cleaner_range(sf, ef, hf)], step
    if kind == "magbins":
        return [float(x) for x in regions.magnitude_bins(sf, ef, hf)], step
    raise ValueError(kind)


def probes(edges, sel, extra, step, eps):
    vals = []
    n = len(edges)
    hf = float(step)
    if sel == "all":
        sel = range(n)
    for k in sel:
        k = k % n
        e = float(edges[k])
        s = exact.slack(e, k, edges, eps)
        vals += [e] + [exact.ulp_step(e, d) for d in (1, -1, 2, -2, 3, -3, 4096, -4096)]
        vals += [e - 2 * s, e - 10 * s, e - 1000 * s, e + hf / 2]
        if k % 3 == 0:
            # every distance scale between the round-off tolerance and the bin width (must stay in the lower bin)
            vals += [e - hf * 10.0 ** (-j) for j in range(1, 13)]
    e0, el = float(edges[0]), float(edges[-1])
    s0 = exact.slack(e0, 0, edges, eps)
    vals += [e0 - hf, exact.ulp_step(e0, -1), e0 - 2 * s0, e0 - 1e6]
    up = exact.fl(Fraction(el) + step)
    sl = exact.slack(up, n, edges, eps)
    vals += [el + hf / 2, up, exact.ulp_step(up, 1), exact.ulp_step(up, -1), up - 3 * sl, up + 3 * sl, el + 10 * hf, el + 1e6]
    # far tails of the float64 range ("all float64 values"): the open top bin has no upper end
    vals += [1e15, 1e18, 1e19, 1e20, 1e300, 1.7976931348623157e308, -1e18, -1e300, -1.7976931348623157e308]
    vals += extra
    return vals


def classify(got, allowed):
    if got in allowed:
        return None
    if -1 in allowed and len(allowed) == 1:
        return "out_of_range_value_binned"
    if got == -1:
        return "in_range_value_reported_out_of_range"
    if got < min(a for a in allowed if a >= 0):
        return "binned_too_low"
    return "binned_too_high"


def minimal(case, v, **kw):
    c = {k: case[k] for k in ("kind", "start", "step", "n", "rc", "input") if k in case}
    if "region" in case:
        c["region"] = case["region"]
        c["axis"] = case["axis"]
    c["values"] = [hx(v)]
    c.update(kw)
    return c


REPRESENTATIONS = ("readonly", "bigendian", "strided", "zero_copy_view")


def represent(vals, how):
    """float64 array holding `vals`, represented as `how`"""
    a = numpy.array(vals, dtype=numpy.float64)
    if how == "readonly":
        a.setflags(write=False)
    elif how == "bigendian":
        a = a.astype(">f8")
    elif how == "strided":
        b = numpy.full(2 * len(a) + 1, 1e300)
        b[1::2] = a
        a = b[1::2]
    elif how == "zero_copy_view":
        a = numpy.frombuffer(a.tobytes(), dtype=numpy.float64)   # read-only, does not own its data
    return a


def check_case(ctx, case):
    from csep.utils import calc
    from csep.core.exceptions import CSEPException
    if case["kind"] == "generator":
        return check_generator(ctx, case)
    if case["kind"] == "region":
        edges, step = region_edges(case)
    else:
        o = call(build_edges, case)
        if not o.ok:
            # the library's own generator failed on an in-domain (start, end, step)
            ctx.unexpected(o, "edge_generator", case)
            return
        edges, step = o.value
    n = len(edges)
    if n == 0 or any(b <= a for a, b in zip(edges, edges[1:])):
        ctx.count("skipped:edges_not_increasing")  # generator defect; judged by the generator sub-check
        return
    rc = case["rc"]
    inp = case["input"]
    eps = exact.EPS32 if inp == "float32" else exact.EPS64
    if "values" in case:
        vals = [float.fromhex(v) for v in case["values"]]
    else:
        vals = probes(edges, case["sel"], [float.fromhex(v) for v in case.get("extra", [])], step, eps)
    if inp == "float32":
        vals = [float(numpy.float32(v)) for v in vals]
        vals = [v for v in vals if numpy.isfinite(v)]
    elif inp == "int":
        vals = sorted(set(int(round(v)) for v in vals if abs(v) < 1e15))
    bins = numpy.array(edges)  # int64 for the int kind, float64 otherwise
    fedges = [float(e) for e in edges]
    allowed = [exact.admissible(fedges, float(v), rc, step, eps) for v in vals]

    # ---- bin1d_vec
    if inp == "ndarray":
        arg = numpy.array(vals, dtype=numpy.float64)
    elif inp == "float32":
        arg = numpy.array(vals, dtype=numpy.float32)
    elif inp == "int":
        arg = numpy.array(vals, dtype=numpy.int64)
    elif inp == "list":
        arg = list(vals)
    elif inp == "tuple":
        arg = tuple(vals)
    elif inp in REPRESENTATIONS:
        # same values, other legitimate array representations ("array-like"): the answers must not depend on them
        arg = represent(vals, inp)
        bins = represent([float(e) for e in edges], inp) if case["kind"] != "int" else bins
        ctx.count("representation:" + inp)
    else:
        arg = None
    if arg is not None:
        o = call(calc.bin1d_vec, arg, bins, right_continuous=rc)
        if not o.ok:
            ctx.unexpected(o, "bin1d_vec")
            return
        got = [int(g) for g in numpy.atleast_1d(o.value)]
        # the documented signature bin1d_vec(p, bins, tol=None, right_continuous=False) called positionally
        op = call(calc.bin1d_vec, arg, bins, None, rc)
        if not op.ok:
            ctx.unexpected(op, "bin1d_vec_positional")
        elif [int(g) for g in numpy.atleast_1d(op.value)] != got:
            ctx.violation("bin1d_vec_positional_call_differs_from_keyword_call", {"right_continuous": rc})
    else:  # scalars, one call each
        got = []
        for v in vals:
            o = call(calc.bin1d_vec, v, bins, right_continuous=rc)
            if not o.ok:
                ctx.unexpected(o, "bin1d_vec_scalar", minimal(case, v))
                return
            got.append(int(numpy.atleast_1d(o.value)[0]))
    if len(got) != len(vals):
        ctx.violation("bin1d_vec_wrong_length", {"got": len(got), "want": len(vals)})
        return
    ctx.count("probes", len(vals))
    for v, g, a in zip(vals, got, allowed):
        kind = classify(g, a)
        if kind:
            ctx.violation(kind, {"v": v, "v_hex": hx(v), "got": g, "admissible": sorted(a),
                                 "edges_near": fedges[max(0, g - 1):g + 3] if g >= 0 else fedges[:2]}, minimal(case, v))
    # ---- monotone: sorting the values sorts the indices (closed mode: beyond-range -1 counts as +inf)
    order = sorted(range(len(vals)), key=lambda i: vals[i])
    prev = None
    for i in order:
        g = got[i]
        if g == -1 and vals[i] > fedges[0]:
            g = 10**9
        if prev is not None and g < prev[1]:
            ctx.violation("not_monotone", {"v": [prev[0], vals[i]], "idx": [prev[1], g]},
                          minimal(case, vals[i], values=[hx(prev[0]), hx(vals[i])]))
            break
        prev = (vals[i], g)

    if inp not in ("ndarray", "list", "tuple") + REPRESENTATIONS or n < 2:
        return
    # ---- discretize
    must_raise = any(a == {-1} for a in allowed)
    may_raise = any(-1 in a for a in allowed)
    o = call(calc.discretize, arg, bins, right_continuous=rc)
    if o.ok:
        if must_raise:
            ctx.violation("discretize_did_not_reject", {"n_out": sum(a == {-1} for a in allowed)})
    elif isinstance(o.exc, CSEPException):
        if not may_raise:
            ctx.violation("discretize_rejected_in_range", {"exc": str(o.exc)})
    else:
        ctx.unexpected(o, "discretize")
    # the values that are certainly in range, value by value (the full probe list always holds out-of-range values)
    inr = [(v, a) for v, a in zip(vals, allowed) if -1 not in a]
    if inr:
        sub = [v for v, _ in inr]
        o = call(calc.discretize, numpy.array(sub) if inp == "ndarray" else sub, bins, right_continuous=rc)
        if not o.ok:
            if isinstance(o.exc, CSEPException):
                ctx.violation("discretize_rejected_in_range", {"exc": str(o.exc)})
            else:
                ctx.unexpected(o, "discretize")
        else:
            for (v, a), d in zip(inr, o.value):
                if float(d) not in {fedges[k] for k in a if k >= 0}:
                    ctx.violation("discretize_wrong", {"v": v, "got": float(d), "admissible": sorted(a)}, minimal(case, v))

    if not rc:
        return
    # ---- catalog / forecast observers of the same binning (open top)
    from csep.core.catalogs import CSEPCatalog
    from csep.core.forecasts import GriddedForecast
    from csep.core.regions import CartesianGrid2D
    region = CartesianGrid2D.from_origins(numpy.array([[0.0, 0.0]]), dh=1.0, magnitudes=bins)
    cat = CSEPCatalog(data=[("e%d" % i, 0, 0.5, 0.5, 1.0, v) for i, v in enumerate(vals)], region=region)
    if n >= 2:
        # a gridding with explicit bins of its own (refused when a value lies below them; not judged) must leave the region's grid alone
        other = numpy.array([float(b) + 0.37 * float(step) for b in bins])
        call(lambda: cat.spatial_magnitude_counts(mag_bins=other))
        call(lambda: CSEPCatalog(data=[("low", 0, 0.5, 0.5, 1.0, float(bins[0]) - 1.0)], region=region).spatial_magnitude_counts(mag_bins=other))
        ctx.count("refused_explicit_bin_griddings_before_the_observers")
    o = call(cat.get_mag_idx)
    if not o.ok:
        ctx.unexpected(o, "get_mag_idx")
    else:
        for v, g, a in zip(vals, o.value, allowed):
            if int(g) not in a:
                ctx.violation("get_mag_idx:" + (classify(int(g), a) or "?"), {"v": v, "got": int(g), "admissible": sorted(a)}, minimal(case, v))
    # the same catalog object, asked again after the region it is bound to got another magnitude grid (a second forecast built on
    # that region re-binds region.magnitudes): the indices belong to the grid the region has now
    if n >= 2 and o.ok:
        shifted = numpy.array([float(b) for b in bins[1:]])       # the grid without its first bin
        GriddedForecast(data=numpy.zeros((1, n - 1)), region=region, magnitudes=shifted)
        o_again = call(cat.get_mag_idx)
        if not o_again.ok:
            ctx.unexpected(o_again, "get_mag_idx:after_rebinding_the_region_magnitudes")
        else:
            ctx.count("get_mag_idx_after_rebinding")
            for v, g0, g1, a in zip(vals, o.value, o_again.value, allowed):
                if len(a) == 1 and int(g0) in a and int(g0) >= 1 and int(g1) != int(g0) - 1:
                    ctx.violation("get_mag_idx:stale_after_region_magnitudes_changed", {"v": v, "first": int(g0), "second": int(g1), "want": int(g0) - 1}, minimal(case, v))
                    break
        region.magnitudes = bins
        region.num_mag_bins = len(bins)
    fore = GriddedForecast(data=numpy.zeros((1, n)), region=region, magnitudes=bins)
    # (a) the whole probe list: rejected iff some value is out of range
    o = call(fore.get_magnitude_index, numpy.array(vals))
    if o.ok:
        if must_raise:
            ctx.violation("get_magnitude_index_did_not_reject", None)
    elif isinstance(o.exc, ValueError):
        if not may_raise:
            ctx.violation("get_magnitude_index_rejected_in_range", {"exc": str(o.exc)})
    else:
        ctx.unexpected(o, "get_magnitude_index")
    # (b) the values that are certainly in range: index by index
    inr = [(v, a) for v, a in zip(vals, allowed) if -1 not in a]
    if inr:
        o = call(fore.get_magnitude_index, numpy.array([v for v, _ in inr]))
        if not o.ok:
            if isinstance(o.exc, ValueError):
                ctx.violation("get_magnitude_index_rejected_in_range", {"exc": str(o.exc)})
            else:
                ctx.unexpected(o, "get_magnitude_index")
        else:
            for (v, a), g in zip(inr, o.value):
                if int(g) not in a:
                    ctx.violation("get_magnitude_index:" + (classify(int(g), a) or "?"), {"v": v, "got": int(g), "admissible": sorted(a)}, minimal(case, v))
    # (c) each value that is certainly below the first edge is rejected on its own
    below = [v for v, a in zip(vals, allowed) if a == {-1}]
    for v in below[:6]:
        o = call(fore.get_magnitude_index, numpy.array([v]))
        if o.ok:
            ctx.violation("get_magnitude_index_did_not_reject", {"v": v, "got": [int(g) for g in o.value]}, minimal(case, v))
    # magnitude_counts on the unambiguous values: in-range ones in their bin, values certainly below the first edge in no bin
    # ("reported as out of range": the histogram leaves them uncounted)
    sure = [(v, next(iter(a))) for v, a in zip(vals, allowed) if len(a) == 1 and (-1 not in a or (math.isfinite(v) and abs(v) < 1e300))]
    if sure:
        cat2 = CSEPCatalog(data=[("e%d" % i, 0, 0.5, 0.5, 1.0, v) for i, (v, _) in enumerate(sure)], region=region)
        want = [0] * n
        for _, k in sure:
            if k >= 0:
                want[k] += 1
        for name, f in (("magnitude_counts", lambda: cat2.magnitude_counts()), ("magnitude_counts_explicit", lambda: cat2.magnitude_counts(mag_bins=bins))):
            o = call(f)
            if not o.ok:
                ctx.unexpected(o, name)
            elif [int(x) for x in o.value] != want:
                bad = [k for k in range(n) if int(o.value[k]) != want[k]]
                ctx.violation(name + "_wrong", {"bins": bad[:5], "got": [int(o.value[k]) for k in bad[:5]], "want": [want[k] for k in bad[:5]]})


def check_generator(ctx, case):
    """cleaner_range / magnitude_bins return exactly the floats closest to start + k*step."""
    from csep.utils import calc
    from csep.core import regions
    s, h, n = exact.frac(case["start"]), exact.frac(case["step"]), case["n"]
    want = exact.decimal_grid(case["start"], case["step"], n)
    sf, hf, ef = exact.fl(s), exact.fl(h), exact.fl(s + (n - 1) * h)
    for name, f in (("cleaner_range", calc.cleaner_range), ("magnitude_bins", regions.magnitude_bins)):
        o = call(f, sf, ef, hf)
        if not o.ok:
            ctx.unexpected(o, name)
            continue
        got = [float(x) for x in o.value]
        # what the caller does to the returned array afterwards (edges shifted to bin centres in place) is the caller's business:
        # the next request with the same arguments returns the grid again
        try:
            o.value += hf / 2
        except Exception:  # noqa: BLE001 - read-only or not an array: nothing to check
            pass
        o_again = call(f, sf, ef, hf)
        if o_again.ok and [float(x) for x in o_again.value] != got:
            ctx.violation(name + "_second_request_returns_what_the_caller_did_to_the_first", {"first": got[:3], "second": [float(x) for x in o_again.value][:3]})
        if len(got) != n:
            ctx.violation(name + "_wrong_length", {"got": len(got), "want": n, "first": got[:3]})
        elif got != want:
            bad = [k for k in range(n) if got[k] != want[k]]
            off = max(abs(got[k] - want[k]) for k in bad)
            kind = "_not_closest_float" if off <= 4 * exact.EPS64 * max(abs(want[0]), abs(want[-1]), 1e-300) else "_wrong_values"
            ctx.violation(name + kind, {"k": bad[:4], "got": [got[k] for k in bad[:4]], "want": [want[k] for k in bad[:4]]})


_REGIONS = {}


def region_edges(case):
    from csep.core import regions
    name = case["region"]
    if name not in _REGIONS:
        fn, kw = {
            "nz": (regions.nz_csep_region, {}), "nz_collection": (regions.nz_csep_collection_region, {}),
            "italy_collection": (regions.italy_csep_collection_region, {}),
            "california_collection": (regions.california_relm_collection_region, {}),
            "global2": (regions.global_region, {"dh": 2}), "global1": (regions.global_region, {"dh": 1}),
            "global05": (regions.global_region, {"dh": 0.5}), "nz_x2": (regions.nz_csep_region, {"dh_scale": 2}),
        }[name]
        _REGIONS[name] = fn(**kw)
    r = _REGIONS[name]
    arr = r.xs if case["axis"] == "x" else r.ys
    return [float(x) for x in arr], Fraction(str(r.dh))


def nontrivial(case, edges_n):
    return edges_n >= 3 and "sel" in case


def run(ctx):
    dec_start = st.builds(lambda i, d: str(Fraction(i, 10**d).numerator / Fraction(i, 10**d).denominator) if False else _dec(i, d),
                          st.integers(-4000, 4000), st.integers(0, 3))

    @st.composite
    def grid(draw):
        kind = draw(st.sampled_from(["decimal", "decimal", "arange", "cleaner", "magbins", "int"]))
        n = draw(st.one_of(st.integers(1, 12), st.integers(2, 80), st.integers(2, ctx.n(300, 4000))))
        if kind == "int":
            start, step = str(draw(st.integers(-50, 50))), str(draw(st.sampled_from([1, 2, 5])))
        else:
            step = draw(st.sampled_from(STEPS))
            start = draw(st.one_of(dec_start, st.sampled_from(["5.95", "4.95", "2.5", "-0.1", "0.1", "0", "-180", "-90", "3.95", "2.45", "0.05", "-0.05", "0.01", "-0.01", "0.001", "-0.3", "0.2",
                                                           # values whose shortest repr is in exponent notation (1e-05)
                                                           "0.00001", "0.00005", "-0.00002", "0.000001", "0.000025", "0.0000125", "-0.000015", "0.0000375"])))
        if kind == "decimal" and draw(st.integers(0, 5)) == 0:
            step = draw(st.sampled_from(["1/7", "1/3", "1/6", "2/3", "1/12", "1/60"]))      # equally spaced, not a decimal grid
        if kind in ("cleaner", "magbins", "arange"):
            n = max(n, 2)
        inp = draw(st.sampled_from(["ndarray", "ndarray", "ndarray", "list", "scalar", "float32", "int", "tuple", "readonly", "bigendian", "strided", "zero_copy_view"]))
        if kind == "int" and inp == "float32":
            inp = "ndarray"
        if n <= 400:
            sel = "all"
        else:
            sel = sorted(set(draw(st.lists(st.integers(0, n - 1), min_size=1, max_size=150, unique=True)) + [n - 1, 1]))
        extra = draw(st.lists(st.floats(-500, 500, allow_nan=False), max_size=4))
        return {"kind": kind, "start": start, "step": step, "n": n, "rc": draw(st.booleans()), "input": inp,
                "sel": sel, "extra": [hx(x) for x in extra]}

    def drive_grid(c, case):
        check_case(c, case)
        c.record(case, nontrivial(case, case["n"]), "grid:" + case["kind"])

    ctx.drive(grid(), ctx.n(260, 3000), fn=drive_grid, salt=1)

    @st.composite
    def gen(draw):
        return {"kind": "generator", "start": draw(st.one_of(dec_start, st.sampled_from(["5.95", "4.95", "2.5", "-180", "-90", "0", "0.00001", "0.00005", "-0.00002", "0.000025", "0.0000125", "-0.000015"]))),
                "step": draw(st.sampled_from(STEPS)), "n": draw(st.one_of(st.integers(2, 12), st.integers(2, ctx.n(400, 4000))))}

    def drive_gen(c, case):
        check_case(c, case)
        c.record(case, case["n"] >= 3, "generator")

    ctx.drive(gen(), ctx.n(150, 2000), fn=drive_gen, salt=2)

    # shipped regions' lon/lat edge arrays: every edge probed (enumerated, not sampled)
    names = ["nz", "nz_collection", "italy_collection", "california_collection", "global2", "global1"] + \
            (["global05", "nz_x2"] if ctx.tier == "thorough" else [])
    jobs = [(nm, ax, rc) for nm in names for ax in "xy" for rc in (False, True)]
    for i, (nm, ax, rc) in enumerate(jobs):
        if i % ctx.nshards != ctx.shard:
            continue
        edges, _ = region_edges({"region": nm, "axis": ax})
        case = {"kind": "region", "region": nm, "axis": ax, "n": len(edges), "rc": rc, "input": "ndarray",
                "sel": "all", "extra": []}
        ctx.check(case)
        ctx.record({k: v for k, v in case.items() if k != "sel"} | {"sel": "all %d edges" % len(edges)}, True, "region_edges")
    ctx.exhaustive["every edge of the xs/ys arrays of %d shipped regions, both modes" % len(names)] = True


def _dec(i, d):
    """decimal string of i / 10^d without exponent."""
    s = "%d" % abs(i)
    if d:
        s = s.rjust(d + 1, "0")
        s = s[:-d] + "." + s[-d:]
    return ("-" if i < 0 else "") + s
