"""C19 - catalog readers decode every well-formed record of each supported format."""
import calendar
import datetime as D
import math
import os
import tempfile

import numpy
from hypothesis import strategies as st

from pbt import files
from pbt.core import call, draw_tz, workdir

PROP = "C19"
TECHNIQUE = "Hypothesis-generated event lists rendered by independent reference encoders into each text format, loaded through csep.load_catalog and compared with the generating list after the format's own quantisation (round trip / differential)"
RULE = ("one case = format (csep-csv, zmap, jma-csv, ingv_horus, ndk) x 1..50 records (full coordinate ranges; times across years, leap days, "
        "minute/hour/day roll-overs; seconds written as 60 where the format allows; JMA offsets +09:00/+00:00/-03:30; optional columns "
        "present/absent; last line with / without terminator; single-record files; record lists repeated to 2500+ records; loader option format=csep; optional non-UTC process "
        "time zone). Expected events = generating list after the format's quantisation (text precision; HORUS "
        "float32; ZMAP/NDK/HORUS whole seconds by truncation, CSEP/JMA milliseconds; NDK magnitude from the scalar moment). "
        "Non-trivial = file with >= 2 records containing a roll-over or a non-UTC offset; distinct = canonical JSON.")
ASSUMPTIONS = ["files follow the column layouts in the reader docstrings / bundled fixtures (reference encoders in pbt/files.py)",
               "HORUS: coordinates, depth, magnitude are float32 as documented; whole seconds by truncation (pinned by tests.test_catalog test_cat_horus)",
               "ZMAP: integer seconds, at most 13 numeric columns (the network-name column is not numeric and would be rejected by the documented loadtxt-based reader)",
               "NDK: seconds have one decimal; '60.0' is the only roll-over spelling the format description gives; Mw = 2/3*(log10(M0[Nm]) - 9.1)",
               "event ids are not compared (each reader synthesises its own)"]
SHARDS = {"quick": 8, "thorough": 16}
EPOCH = D.datetime(1970, 1, 1)


def ms_of(dt):
    return (dt - EPOCH) // D.timedelta(milliseconds=1)


def expected(case):
    """list of (origin_ms, lat, lon, depth, mag) after the format's quantisation"""
    fmt = case["fmt"]
    out = []
    for r in case["recs"]:
        if fmt == "csep-csv":
            out.append((r["ms"], r["lat"], r["lon"], r["depth"], r["mag"]))
        elif fmt == "zmap":
            dt = D.datetime(r["year"], r["month"], r["day"], r["hour"], r["minute"], r["second"])
            out.append((ms_of(dt), float("%.4f" % r["lat"]), float("%.4f" % r["lon"]), float("%.2f" % r["depth"]), float("%.2f" % r["mag"])))
        elif fmt == "jma-csv":
            out.append((r["utc_ms"], r["lat"], r["lon"], r["depth"], r["mag"]))
        elif fmt == "ingv_horus":
            dt = D.datetime(r["year"], r["month"], r["day"]) + D.timedelta(hours=r["hour"], minutes=r["minute"], seconds=math.floor(r["second"]))
            f32 = lambda v: float(numpy.float32(float("%.10f" % v)))
            out.append((ms_of(dt), f32(r["lat"]), f32(r["lon"]), f32(r["depth"]), f32(r["mag"])))
        elif fmt == "ndk":
            sec = float("%04.1f" % r["second"])
            dt = D.datetime(r["year"], r["month"], r["day"], r["hour"], r["minute"]) + D.timedelta(seconds=math.floor(sec))
            m0 = float("%7.3f" % r["moment"]) * (10 ** (r["exp"] - 7))
            out.append((ms_of(dt), float("%6.2f" % r["lat"]), float("%7.2f" % r["lon"]), float("%5.1f" % r["depth"]), 2.0 / 3.0 * (math.log10(m0) - 9.1)))
    return out


def write(case, path):
    fmt = case["fmt"]
    if fmt == "csep-csv":
        files.write_csep_csv(path, [("id%d" % i, r["ms"], r["lat"], r["lon"], r["depth"], r["mag"]) for i, r in enumerate(case["recs"])],
                             catalog_id=case.get("catalog_id", 0), header=case["header"], frac=case.get("frac", "auto"),
                             eol=case.get("eol", "\r\n"), blank_ids=case.get("blank_ids", False))
    elif fmt == "zmap":
        files.write_zmap(path, case["recs"], ncols=case.get("ncols", 13))
    elif fmt == "jma-csv":
        files.write_jma(path, case["recs"], header=case["header"])
    elif fmt == "ingv_horus":
        files.write_horus(path, case["recs"])
    elif fmt == "ndk":
        files.write_ndk(path, case["recs"], trailing_newline=case.get("nl", True))
    if case.get("nl") is False and fmt != "ndk":
        # the same records in a file whose last line has no terminator (what many editors and exporters write)
        with open(path, "rb") as f:
            raw = f.read()
        with open(path, "wb") as f:
            f.write(raw.rstrip(b"\r\n"))


def check_case(ctx, case):
    import csep
    if case.get("repeat", 1) > 1:
        case = dict(case, recs=case["recs"] * case["repeat"])     # the same records many times over (large files)
        ctx.count("large_files:%s:%s_records" % (case["fmt"], "2000+" if len(case["recs"]) >= 2000 else "<2000"))
    want = expected(case)
    with workdir() as d:
        path = os.path.join(d, "catalog." + {"csep-csv": "csv", "zmap": "dat", "jma-csv": "csv", "ingv_horus": "txt", "ndk": "ndk"}[case["fmt"]])
        write(case, path)
        if case.get("pathlib"):
            import pathlib
            path = pathlib.Path(path)     # file names are accepted as str and as pathlib.Path
        o = call(csep.load_catalog, path, type=case["fmt"], **({"format": case["format"]} if case.get("format") else {}))
        if case.get("format"):
            ctx.count("loaded_with_format_" + case["format"])
    fmt = case["fmt"]
    if not o.ok:
        ctx.unexpected(o, "load_catalog:" + fmt + (":single_record" if len(want) == 1 else ""))
        return
    cat = o.value
    if cat.event_count != len(want):
        ctx.violation(fmt + ":record_count", {"got": cat.event_count, "want": len(want)})
        return
    got = list(zip(cat.get_epoch_times().tolist(), cat.get_latitudes().tolist(), cat.get_longitudes().tolist(), cat.get_depths().tolist(), cat.get_magnitudes().tolist()))
    names = ("origin_time", "latitude", "longitude", "depth", "magnitude")
    for k, (g, w) in enumerate(zip(got, want)):
        for j in range(5):
            ok = (g[j] == w[j]) if (j == 0 or fmt != "ndk" or j != 4) else abs(g[j] - w[j]) <= 1e-12
            if not ok:
                sub = ""
                if j == 0:
                    diff = g[0] - w[0]
                    sub = ":off_by_%s" % ("1ms" if abs(diff) == 1 else "60s" if abs(diff) == 60000 else "offset" if abs(diff) % 60000 == 0 else "other")
                ctx.violation("%s:%s%s" % (fmt, names[j], sub), {"record": k, "got": g[j], "want": w[j], "rec": case["recs"][k]})
                return


def rollover(case):
    for r in case["recs"]:
        if r.get("second", 0) >= 60 or r.get("minute", 0) >= 60 or r.get("hour", 0) >= 24 or r.get("offset", 0) != 0:
            return True
        if r.get("month") == 2 and r.get("day") == 29:
            return True
    return False


# ------------------------------------------------------------------ generation
def ymd():
    @st.composite
    def f(draw):
        y = draw(st.one_of(st.integers(1900, 2199), st.sampled_from([1904, 1970, 2000, 2020, 2024, 2100])))
        m = draw(st.integers(1, 12))
        dmax = calendar.monthrange(y, m)[1]
        d = draw(st.one_of(st.integers(1, dmax), st.just(dmax), st.just(1)))
        return y, m, d
    return f()


@st.composite
def recs_for(draw, fmt, n):
    out = []
    for _ in range(n):
        y, m, d = draw(ymd())
        hh, mi = draw(st.sampled_from([0, 23, 12, 7])), draw(st.sampled_from([0, 59, 30, 1]))
        lat = draw(st.one_of(st.floats(-90, 90), st.sampled_from([-90.0, 90.0, 0.0])))
        lon = draw(st.one_of(st.floats(-180, 180), st.sampled_from([-180.0, 180.0, 0.0])))
        depth = draw(st.floats(0, 700))
        mag = draw(st.floats(0.1, 9.5))
        if fmt == "csep-csv":
            ms = draw(st.one_of(st.integers(-2208988800000, 7258118400000), st.integers(-2208988800, 7258118400).map(lambda x: x * 1000),
                                st.tuples(st.integers(-2208988800, 7258118400 - 1), st.sampled_from([100, 500, 250, 10, 990, 120])).map(lambda t: t[0] * 1000 + t[1])))
            out.append({"ms": ms, "lat": lat, "lon": lon, "depth": depth, "mag": mag})
        elif fmt == "zmap":
            out.append({"year": y, "month": m, "day": d, "hour": hh, "minute": mi, "second": draw(st.sampled_from([0, 59, 30, 1])),
                        "lat": round(lat, 4), "lon": round(lon, 4), "depth": round(depth, 2), "mag": round(mag, 2)})
        elif fmt == "jma-csv":
            off = draw(st.sampled_from([540, 540, 0, -210]))
            ms_part = draw(st.integers(0, 999))
            sec = draw(st.sampled_from([0, 59, 30]))
            local = D.datetime(y, m, d, hh, mi, sec, ms_part * 1000)
            sign = "+" if off >= 0 else "-"
            colon = draw(st.booleans())
            stamp = local.strftime("%Y-%m-%dT%H:%M:%S.%f") + "%s%02d%s%02d" % (sign, abs(off) // 60, ":" if colon else "", abs(off) % 60)
            out.append({"stamp": stamp, "offset": off, "utc_ms": ms_of(local - D.timedelta(minutes=off)), "lat": lat, "lon": lon, "depth": depth, "mag": mag})
        elif fmt == "ingv_horus":
            roll = draw(st.sampled_from(["none", "none", "sec", "min", "hour", "all"]))
            sec = draw(st.sampled_from([0, 0, 59, 30]) | st.integers(0, 59)) + draw(st.sampled_from([0, 0, 99]) | st.integers(0, 99)) / 100.0
            H, M = hh, mi
            if roll in ("sec", "all"):
                sec += 60
            if roll in ("min", "all"):
                M = 60
            if roll in ("hour", "all"):
                H = 24
            out.append({"year": y, "month": m, "day": d, "hour": H, "minute": M, "second": sec, "lat": round(lat, 4), "lon": round(lon, 4),
                        "depth": round(depth, 1), "mag": round(mag, 2)})
        elif fmt == "ndk":
            sec = draw(st.one_of(st.integers(0, 599).map(lambda x: x / 10.0), st.just(60.0)))
            out.append({"year": y, "month": m, "day": d, "hour": hh, "minute": mi, "second": sec, "lat": lat, "lon": lon, "depth": min(depth, 699.0),
                        "moment": draw(st.one_of(st.floats(1.0, 9.999), st.floats(100.0, 999.999))), "exp": draw(st.integers(20, 30)), "name": "C%04d%02d%02d%02d%02dA" % (y, m, d, hh, mi),
                        # the documented alternatives of the categorical fields
                        "depth_type": draw(st.sampled_from(["FREE", "FREE", "FIX", "BDY"])), "cmt_type": draw(st.sampled_from([0, 1, 1, 2])),
                        "mr_type": draw(st.sampled_from(["TRIHD", "BOXHD"])), "stamp": draw(st.sampled_from(["S-20060726112355", "Q-20060726112355", "O-00000000000000"])),
                        "hypo_cat": draw(st.sampled_from(["PDEW", "PDE", "ISC", "SWE", "MLI"]))})
    return out


@st.composite
def cases(draw, max_n=50):
    fmt = draw(st.sampled_from(["csep-csv", "zmap", "jma-csv", "ingv_horus", "ndk"]))
    n = draw(st.one_of(st.just(1), st.integers(1, 5), st.integers(1, max_n)))
    c = {"fmt": fmt, "recs": draw(recs_for(fmt, n))}
    if fmt in ("csep-csv", "jma-csv"):
        c["header"] = draw(st.booleans())
    if fmt == "csep-csv":
        c["frac"] = draw(st.sampled_from(["auto", "us", "ms", "short"]))
        c["eol"] = draw(st.sampled_from(["\n", "\r\n"]))
        c["blank_ids"] = draw(st.booleans())
        c["catalog_id"] = draw(st.sampled_from([0, 7, None]))
    if fmt == "zmap":
        c["ncols"] = draw(st.sampled_from([10, 13]))
    c["nl"] = draw(st.booleans())         # last line with / without its terminator (every format)
    if draw(st.integers(0, 15)) == 0:
        c["repeat"] = draw(st.sampled_from([40, max(40, -(-2500 // n))]))      # second choice: at least 2500 records
    if draw(st.integers(0, 3)) == 0:
        c["pathlib"] = True
    if draw(st.integers(0, 3)) == 0:
        c["format"] = "csep"       # documented alternative of format='native': same records in the CSEP catalog class
    return draw_tz(draw, c)


def fuzz_strategy(ctx):
    return cases(max_n=12)


def nontrivial(case):
    return len(case["recs"]) >= 2 and rollover(case)


def run(ctx):
    def fn(c, case):
        check_case(c, case)
        c.record(case, len(case["recs"]) >= 2 and rollover(case), case["fmt"])

    ctx.drive(cases(max_n=ctx.n(50, 200)), ctx.n(150, 1500), fn=fn, salt=1)
    # large files by construction: a small generated record list repeated to at least 2500 records
    big = cases(max_n=12).map(lambda c: dict(c, repeat=max(40, -(-2500 // len(c["recs"])))))

    def fn_big(c, case):
        check_case(c, case)
        c.record({k: v for k, v in case.items() if k != "recs"} | {"n_recs": len(case["recs"])}, True, case["fmt"] + ":large_file")

    ctx.drive(big, ctx.n(8, 60), fn=fn_big, salt=2)
