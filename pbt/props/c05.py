"""C05 - Poisson L/CL/S/M statistics equal the Poisson joint log-likelihood."""
import math
from unittest import mock

import numpy
from hypothesis import strategies as st

from pbt import gridded as G
from pbt.core import call

PROP = "C05"
TECHNIQUE = "Hypothesis-generated forecasts and catalogs vs. independent textbook Poisson joint log-likelihood (math.fsum); simulated catalogs reconstructed from injected uniform numbers by exact inverse CDF"
RULE = ("one case = forecast (1..60 cells x 1..6 magnitude bins, rates log-uniform 1e-12..1e3, 0-30% exact zeros) x observed catalog "
        "inside the region (0..300 events, several per bin, events at bin centres) x 1..5 simulations with injected uniform numbers placed "
        "inside cumulative-rate intervals (CL, S, M) or a seed (L, simulated arrays observed through a soft spy). Checked: observed_statistic "
        "of L, CL, S, M and every test_distribution entry against the oracle; -inf exactly when an event lies in a zero-rate bin. "
        "Non-trivial = N_obs >= 2, some bin with >= 2 events and N_obs != round(N_fore); distinct = canonical JSON.")
ASSUMPTIONS = ["tolerance 1e-9*(1+sum|terms|) on sums of logs (stated, floating point)",
               "S and M use the marginal rates scaled by N_obs/N_fore; L and CL the unscaled full rates (property text)",
               "at least one positive rate (otherwise the sampling distribution is undefined)",
               "injected draws lie strictly inside a cumulative interval (boundaries are C06's subject)",
               "L-test simulated arrays are read through a wrapper around poisson_evaluations._simulate_catalog; if that attribute disappears the sub-check is skipped and counted"]
SHARDS = {"quick": 8, "thorough": 16}


def tol_of(abs_terms):
    return 1e-9 * (1.0 + abs_terms)


def draws_for(weights, sims):
    """uniform numbers inside drawn bins; returns (U or None, bins)"""
    F = G.cdf_bounds(weights)
    pos = [k for k in range(len(weights)) if F[k + 1] > F[k]]
    U, B = [], []
    for sim in sims:
        us, bs = [], []
        for r, t in sim:
            k = pos[min(int(r * len(pos)), len(pos) - 1)]
            if t == 1:
                # the largest double below 1 belongs to the last bin of positive rate (its upper cumulative bound is exactly 1 after
                # normalisation; trailing zero-rate bins are never hit) - exact for any weights
                us.append(1.0 - 2.0 ** -53)
                bs.append(pos[-1])
                continue
            if t == 0:
                # the one boundary that is exact for any weights: u = 0.0 belongs to the first bin of positive rate (leading
                # zero-rate bins have cumulative weight exactly 0 and are never hit)
                us.append(0.0)
                bs.append(pos[0])
                continue
            u = G.draw_in_bin(F, k, t) or G.draw_in_bin(F, k, 0.5)
            if u is None:
                # too narrow to hit safely: fall back to the widest bin
                k = max(pos, key=lambda j: F[j + 1] - F[j])
                u = G.draw_in_bin(F, k, 0.5)
            if u is None:
                return None, None
            us.append(u)
            bs.append(k)
        U.append(us)
        B.append(bs)
    return U, B


def check_case(ctx, case):
    from csep.core import poisson_evaluations as P
    S = G.Setup(case)
    region = S.region()
    fore = S.forecast(region)
    w = S.counts()
    n_obs = int(w.sum())
    n_fore = math.fsum(S.rates.ravel().tolist())
    nsim = len(case["sims"])
    sims = [s[:n_obs] for s in case["sims"]]
    if any(len(s) < n_obs for s in sims):
        raise ValueError("case has too few draws")

    def compare(name, res, rates, counts, U_bins):
        want, at = G.poisson_ll(rates, counts)
        got = float(res.observed_statistic)
        if math.isinf(want):
            ctx.count("expected_minus_inf:" + name)
            if not (math.isinf(got) and got < 0):
                ctx.violation(name + ":no_minus_inf_for_event_in_zero_rate_bin", {"got": got})
        elif math.isinf(got) or math.isnan(got):
            ctx.violation(name + ":non_finite_statistic", {"got": repr(got), "want": want})
        elif not G.close(got, want, tol_of(at)):
            ctx.violation(name + ":observed_statistic_wrong", {"got": got, "want": want, "n_obs": n_obs, "n_fore": n_fore})
        td = list(res.test_distribution)
        if len(td) != nsim:
            ctx.violation(name + ":distribution_length", {"got": len(td), "want": nsim})
            return
        if U_bins is not None:
            for i, bs in enumerate(U_bins):
                c = [0.0] * len(rates)
                for b in bs:
                    c[b] += 1
                wv, at = G.poisson_ll(rates, c)
                if not G.close(float(td[i]), wv, tol_of(at)):
                    ctx.violation(name + ":simulated_statistic_wrong", {"i": i, "got": float(td[i]), "want": wv})
                    break
        q = float(res.quantile)
        wantq = sum(1 for x in td if x <= res.observed_statistic) / nsim
        if q != wantq:
            ctx.violation(name + ":quantile_not_fraction_le", {"got": q, "want": wantq})

    # ---- CL (full rates, N_obs events per simulation)
    flat = S.rates.ravel().tolist()
    U, B = draws_for(flat, sims)
    if U is None:
        ctx.count("skipped:bins_too_narrow")
    else:
        o = call(P.conditional_likelihood_test, fore, S.catalog(region), num_simulations=nsim,
                 random_numbers=numpy.array(U, dtype=float).reshape(nsim, n_obs))
        if not o.ok:
            ctx.unexpected(o, "conditional_likelihood_test")
        else:
            compare("CL", o.value, flat, w.ravel().tolist(), B)
    # ---- S (spatial marginal scaled to N_obs)
    sp = [math.fsum(row) for row in S.rates.tolist()]
    scale = n_obs / n_fore
    U, B = draws_for(sp, sims)
    if U is not None:
        o = call(P.spatial_test, fore, S.catalog(region), num_simulations=nsim, random_numbers=numpy.array(U, dtype=float).reshape(nsim, n_obs))
        if not o.ok:
            ctx.unexpected(o, "spatial_test")
        else:
            compare("S", o.value, [x * scale for x in sp], w.sum(axis=1).tolist(), B)
    # ---- M (magnitude marginal scaled to N_obs)
    mg = [math.fsum(S.rates[:, m].tolist()) for m in range(S.nm)]
    U, B = draws_for(mg, sims)
    if U is not None:
        o = call(P.magnitude_test, fore, S.catalog(region), num_simulations=nsim, random_numbers=numpy.array(U, dtype=float).reshape(nsim, n_obs))
        if not o.ok:
            ctx.unexpected(o, "magnitude_test")
        else:
            compare("M", o.value, [x * scale for x in mg], w.sum(axis=0).tolist(), B)
        # the M-test bins the observed magnitudes on the FORECAST's magnitude grid: a catalog that happens to be bound to a region
        # object with another magnitude grid (same cells) gives the same result
        other = call(lambda: S.L.build("from_origins", magnitudes=numpy.array([S.edges[0] - 1.0, S.edges[0] + 0.05, S.edges[-1] + 7.0])))
        if other.ok:
            o = call(P.magnitude_test, fore, S.catalog(other.value), num_simulations=nsim, random_numbers=numpy.array(U, dtype=float).reshape(nsim, n_obs))
            if not o.ok:
                ctx.unexpected(o, "magnitude_test:catalog_region_with_other_magnitude_grid")
            else:
                ctx.count("magnitude_tests_with_foreign_catalog_magnitude_grid")
                compare("M:catalog_region_with_other_magnitude_grid", o.value, [x * scale for x in mg], w.sum(axis=0).tolist(), B)
    # ---- one observed catalog OBJECT handed to several tests in a row (it also holds an event below the forecast's first magnitude
    # edge, which the S-test counts - it bins in space only - and the M-test's histogram leaves out): a test reads the catalog, it
    # does not change it, so the S-test before and after the M-test reports the same statistic and the events are still there
    if n_obs >= 1 and case.get("shared_catalog"):
        from csep.core.catalogs import CSEPCatalog
        evs = [S.event(i, k, m) for i, (k, m) in enumerate(S.obs)]
        low = list(S.event(9000, S.obs[0][0], 0))
        low[0], low[5] = "lowmag", S.edges[0] - S.hm / 2
        shared = CSEPCatalog(data=evs + [tuple(low)], region=region, name="obs")
        before_rows = shared.catalog.tolist()
        o1 = call(P.spatial_test, fore, shared, num_simulations=2, seed=1)
        o2 = call(P.magnitude_test, fore, shared, num_simulations=2, seed=1)
        o3 = call(P.spatial_test, fore, shared, num_simulations=2, seed=1)
        ctx.count("shared_catalog_sequences")
        if o1.ok and o3.ok:
            a_, b_ = float(o1.value.observed_statistic), float(o3.value.observed_statistic)
            if not (a_ == b_ or (math.isnan(a_) and math.isnan(b_))):
                ctx.violation("S_statistic_changed_after_an_M_test_on_the_same_catalog_object", {"before": a_, "after": b_, "events_before": len(before_rows), "events_after": shared.event_count})
        elif o1.ok != o3.ok:
            ctx.violation("S_test_outcome_changed_after_an_M_test_on_the_same_catalog_object", {"before": repr(o1)[:200], "after": repr(o3)[:200]})
        if shared.catalog.tolist() != before_rows:
            ctx.violation("evaluation_modified_the_observed_catalog", {"events_before": len(before_rows), "events_after": shared.event_count, "m_test_ok": o2.ok})
    # ---- L (seeded; simulated arrays seen through a soft spy)
    seen = []
    orig = getattr(P, "_simulate_catalog", None)
    if orig is None:
        ctx.count("skipped:no_simulate_catalog_attribute")
        o = call(P.likelihood_test, fore, S.catalog(region), num_simulations=nsim, seed=case["seed"])
    else:
        def spy(num_events, *a, **k):
            r = orig(num_events, *a, **k)
            seen.append((int(num_events), numpy.array(r, dtype=float).copy()))
            return r
        with mock.patch.object(P, "_simulate_catalog", spy):
            o = call(P.likelihood_test, fore, S.catalog(region), num_simulations=nsim, seed=case["seed"])
    if not o.ok:
        ctx.unexpected(o, "likelihood_test")
    else:
        compare("L", o.value, flat, w.ravel().tolist(), None)
        td = list(o.value.test_distribution)
        if orig is not None and len(td) == nsim and len(seen) != nsim:
            # every entry of the test distribution is the statistic of a simulated catalog (also for an empty observation: the
            # L-test draws the number of events from the forecast)
            ctx.violation("L:test_distribution_not_made_of_simulated_catalogs", {"simulations_run": len(seen), "entries": len(td), "n_obs": n_obs})
        if len(seen) == nsim == len(td):
            for i, (ne, arr) in enumerate(seen):
                wv, at = G.poisson_ll(flat, arr.tolist())
                if not G.close(float(td[i]), wv, tol_of(at)):
                    ctx.violation("L:simulated_statistic_wrong", {"i": i, "got": float(td[i]), "want": wv, "n_sim_events": ne})
                    break


def nontrivial(case):
    obs = [tuple(o) for o in case["obs"]]
    n = len(obs)
    return n >= 2 and len(set(obs)) < n and n != round(math.fsum(case["rates"]))


@st.composite
def cases(draw, max_events=300):
    c = draw(G.setups(max_events=max_events))
    n = len(c["obs"])
    k = draw(st.integers(1, 5))
    c["sims"] = [[[draw(st.floats(0, 0.999999)), draw(st.sampled_from([0.5, 0.1, 0.9, 0.01, 0.99, 0, 1]))] for _ in range(n)] for _ in range(k)] if n <= 40 else \
        [draw(st.lists(st.tuples(st.floats(0, 0.999999), st.sampled_from([0.5, 0.1, 0.9])).map(list), min_size=n, max_size=n)) for _ in range(k)]
    c["seed"] = draw(st.integers(0, 2**31 - 1))
    if draw(st.integers(0, 2)) == 0:
        c["shared_catalog"] = True
    return c


def run(ctx):
    def fn(c, case):
        check_case(c, case)
        c.record(case, nontrivial(case), "setup")

    ctx.drive(cases(max_events=ctx.n(120, 300)), ctx.n(250, 2500), fn=fn, salt=1)
