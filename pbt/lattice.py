"""Lattice cases (Cartesian regions): JSON description, Hypothesis strategy, region builders, exact oracle."""
from fractions import Fraction

import numpy
from hypothesis import strategies as st

from pbt import exact

SPACINGS = ["0.1", "0.05", "0.025", "0.2", "0.25", "0.5", "1", "2", "0.125", "0.15", "0.3", "0.01",
            # spacings that are not short decimals (1/12, 1/3, 1/60, 1/7 of a degree) - given as the decimal expansion of the double
            "0.08333333333333333", "0.3333333333333333", "0.016666666666666666", "0.14285714285714285"]


def short_decimal(case):
    """True if the lattice spacing is a decimal number with few digits (every spacing CSEP grids use)"""
    return len(case["dh"].replace("0.", "").lstrip("0")) <= 6


def dec(i, d):
    s = "%d" % abs(i)
    if d:
        s = s.rjust(d + 1, "0")
        s = s[:-d] + "." + s[-d:]
    return ("-" if i < 0 else "") + s


@st.composite
def lattices(draw, max_n=12, flags=True, min_cells=1, spacings=SPACINGS):
    dh = draw(st.sampled_from(spacings))
    d = draw(st.integers(0, 3))
    fdh = float(dh)
    nx = draw(st.one_of(st.integers(1, 3), st.integers(1, max_n)))
    ny = draw(st.one_of(st.integers(1, 3), st.integers(1, max_n)))
    # anchor = integer / 10^d inside the geographic range, leaving room for the extent
    lo_x, hi_x = -180.0, 180.0 - (nx + 1) * fdh
    lo_y, hi_y = -90.0, 90.0 - (ny + 1) * fdh
    # (a third of the anchors lies within 3 degrees of the prime meridian / the equator: one axis with coordinates near zero next
    #  to one with large, possibly negative, coordinates is where inferred spacings and tolerances taken from the 'other' axis show)
    near = st.integers(-3 * 10**d, 3 * 10**d)
    lon0 = draw(st.one_of(st.integers(int(lo_x * 10**d), int(hi_x * 10**d)), st.integers(int(lo_x * 10**d), int(hi_x * 10**d)), near))
    lat0 = draw(st.one_of(st.integers(int(lo_y * 10**d), int(hi_y * 10**d)), st.integers(int(lo_y * 10**d), int(hi_y * 10**d)), near))
    allc = [[i, j] for i in range(nx) for j in range(ny)]
    shape = draw(st.sampled_from(["full", "full", "holes", "holes", "sparse"]))
    if shape == "full" or len(allc) == 1:
        cells = allc
    else:
        keep = draw(st.lists(st.booleans(), min_size=len(allc), max_size=len(allc)))
        if shape == "holes":  # drop ~ a quarter
            drop = draw(st.lists(st.booleans(), min_size=len(allc), max_size=len(allc)))
            keep = [k or d_ for k, d_ in zip(keep, drop)]
        cells = [c for c, k in zip(allc, keep) if k]
        if len(cells) < min_cells:
            cells = allc[:max(min_cells, 1)]
    order = draw(st.sampled_from(["lonfast", "latfast", "perm"]))
    if order == "latfast":
        cells = sorted(cells, key=lambda c: (c[0], c[1]))
    elif order == "lonfast":
        cells = sorted(cells, key=lambda c: (c[1], c[0]))
    else:
        cells = list(draw(st.permutations(cells)))
    fl = None
    if flags and draw(st.booleans()):
        fl = [0 if z else 1 for z in draw(st.lists(st.sampled_from([False, False, False, True]), min_size=len(cells), max_size=len(cells)))]
    # the spacing is either given (decimal) or inferred by the library from the first two origins ("none").
    # ("diff" = handing in a float difference of two coordinates oneself, as load_ascii used to do internally, is still
    #  understood by Lattice for old replay files but no longer generated: the library now de-noises what it infers itself,
    #  and a noisy spacing passed explicitly is the caller's value.)
    dh_mode = draw(st.sampled_from(["decimal", "decimal", "none", "none"]))
    if dh_mode == "none":
        # from_origins(dh=None) infers the spacing from the first two origins: they must be neighbours
        have = set(map(tuple, cells))
        pair = next(((c, n) for c in cells for n in ([c[0] + 1, c[1]], [c[0], c[1] + 1]) if tuple(n) in have), None)
        if pair is None:
            dh_mode = "decimal"     # no two neighbouring cells: the spacing cannot be inferred, it has to be given
        else:
            cells = [pair[0], pair[1]] + [c for c in cells if c != pair[0] and c != pair[1]]
    out = {"dh": dh, "lon0": dec(lon0, d), "lat0": dec(lat0, d), "cells": cells, "flags": fl,
           "origin_mode": draw(st.sampled_from(["clean", "clean", "mid"])), "dh_mode": dh_mode}
    if fl is not None:
        mc = draw(st.sampled_from(["ndarray", "ndarray", "list", "tuple", "int_ndarray"]))
        if mc != "ndarray":
            out["mask_container"] = mc       # the per-cell flags handed to the constructor as a list / tuple / integer array
    return out


class Lattice:
    """Exact model of a lattice case."""

    def __init__(self, case):
        self.case = case
        self.dh = exact.frac(case["dh"])
        self.fdh = exact.fl(self.dh)
        self.lon0 = exact.frac(case["lon0"])
        self.lat0 = exact.frac(case["lat0"])
        self.cells = [tuple(c) for c in case["cells"]]
        # the bounding box starts at the smallest present index on each axis
        self.i0 = min(c[0] for c in self.cells)
        self.j0 = min(c[1] for c in self.cells)
        self.nx = max(c[0] for c in self.cells) - self.i0 + 1
        self.ny = max(c[1] for c in self.cells) - self.j0 + 1
        self.flags = case.get("flags") or [1] * len(self.cells)
        self.index = {c: k for k, c in enumerate(self.cells)}
        self.active = {c: k for k, c in enumerate(self.cells) if self.flags[k] == 1}
        # lower edges of the bounding-box grid = the origin floats handed to the library (nx / ny of them)
        self.ex = [self._coord(self.lon0, self.i0 + i) for i in range(self.nx)]
        self.ey = [self._coord(self.lat0, self.j0 + j) for j in range(self.ny)]
        # the spacing handed to the library: the decimal as a float, or the float difference of two neighbouring
        # origins (what load_ascii and from_origins(dh=None) compute themselves)
        self.given_dh = self.fdh
        if case.get("dh_mode") == "diff":
            if self.ny > 1:
                self.given_dh = self.ey[1] - self.ey[0]
            elif self.nx > 1:
                self.given_dh = self.ex[1] - self.ex[0]

    def _coord(self, a0, i):
        if self.case.get("origin_mode", "clean") == "mid":  # as the shipped region loaders do: float midpoint minus dh/2
            return exact.fl(a0 + i * self.dh + self.dh / 2) - self.fdh / 2
        if self.case.get("origin_mode", "clean") == "f32":  # coordinates that were held in single precision once (binary grid files)
            return float(numpy.float32(exact.fl(a0 + i * self.dh)))
        return exact.fl(a0 + i * self.dh)

    def with_spacing(self, h):
        """Copy whose grid is first origin + k*h (exact) with cell width h: the grid the library derives from a given float spacing."""
        import copy
        a = copy.copy(self)
        a.dh = Fraction(h)
        a.fdh = float(h)
        a.ex = [exact.fl(Fraction(self.ex[0]) + i * a.dh) for i in range(self.nx)]
        a.ey = [exact.fl(Fraction(self.ey[0]) + j * a.dh) for j in range(self.ny)]
        return a

    # ---- what is handed to the library
    def origins(self):
        return numpy.array([[self._coord(self.lon0, i), self._coord(self.lat0, j)] for (i, j) in self.cells])

    def build(self, ctor="from_origins", magnitudes=None):
        from csep.core.regions import CartesianGrid2D, compute_vertices
        from csep.models import Polygon
        o = self.origins()
        dh = self.given_dh
        none = self.case.get("dh_mode") == "none"
        if ctor == "from_origins":
            r = CartesianGrid2D.from_origins(o, dh=None if none else dh, magnitudes=magnitudes)
        elif ctor == "ctor_mask":
            mc = self.case.get("mask_container", "ndarray")
            mask = {"ndarray": lambda f: numpy.array(f, dtype=float), "int_ndarray": lambda f: numpy.array(f, dtype=numpy.int64),
                    "list": lambda f: [int(x) for x in f], "tuple": lambda f: tuple(int(x) for x in f)}[mc](self.flags)
            r = CartesianGrid2D([Polygon(b) for b in compute_vertices(o, dh)], dh, mask=mask, magnitudes=magnitudes)
        elif ctor == "dict":
            r0 = CartesianGrid2D.from_origins(o, dh=None if none else dh)
            import json
            r = CartesianGrid2D.from_dict(json.loads(json.dumps(r0.to_dict())))
            if magnitudes is not None:
                r.magnitudes = magnitudes
        else:
            raise ValueError(ctor)
        return r

    # ---- oracle
    def axis(self, v, edges):
        """(true bin or None if outside [first edge, last edge + dh), admissible set incl. -1)."""
        adm = exact.admissible(edges, v, False, self.dh, single_open=False)
        t = exact.true_bin(edges, v)
        if t < 0 or Fraction(v) >= Fraction(edges[-1]) + self.dh:
            t = None
        # The outer boundary of a decimal lattice is a lattice coordinate like every cell boundary: the decimal lon0 + (i0+nx)*dh.
        # "A coordinate lying exactly on a cell boundary belongs to the cell that boundary opens" - the outer one opens none, so the
        # float of that decimal is outside (it may be an ulp below the float sum last origin + dh, e.g. 0.3 < 0.2 + 0.1; the library
        # rejects it on every decimal lattice tried, 8000 of 8000).
        if "dh" in self.case and self.case.get("origin_mode", "clean") == "clean" and short_decimal(self.case) and self.case.get("dh_mode", "decimal") == "decimal":
            a0, n0, n = (self.lon0, self.i0, self.nx) if edges is self.ex else (self.lat0, self.j0, self.ny) if edges is self.ey else (None, None, None)
            if a0 is not None and float(v) == exact.fl(a0 + (n0 + n) * self.dh):
                return None, {-1}
        return t, adm

    def classify(self, lon, lat, use_flags=True):
        """Returns (sure, cands):
        cands = indices of the active cells that contain the point exactly or within slack (admissible answers);
        sure  = True iff every admissible attribution is an active cell (the point must then be reported inside);
        the point must be reported outside iff cands is empty."""
        _, ax = self.axis(lon, self.ex)
        _, ay = self.axis(lat, self.ey)
        act = self.active if use_flags else self.index
        cands = set()
        sure = True
        for i in ax:
            for j in ay:
                k = act.get((i + self.i0, j + self.j0)) if (i >= 0 and j >= 0) else None
                if k is None:
                    sure = False
                else:
                    cands.add(k)
        return sure, cands

    # ---- probe points
    def probe_points(self, full_jitter=True, rng_extra=()):
        """Structured probe set: every node of the bounding box extended by one cell, with ulp jitter; cell interiors;
        far outside.  Returns list of (lon, lat)."""
        J = [0, 1, -1, 2, -2, 4096]
        xs = [self._coord(self.lon0, self.i0 + i) for i in range(-1, self.nx + 2)]
        ys = [self._coord(self.lat0, self.j0 + j) for j in range(-1, self.ny + 2)]
        if full_jitter:
            combos = [(a, b) for a in J for b in J]
        else:
            combos = [(a, 0) for a in J] + [(0, b) for b in J[1:]] + [(a, a) for a in J[1:]] + [(1, -1), (-1, 1)]
        pts = []
        jx = {a: [exact.ulp_step(x, a) if a else x for x in xs] for a in J}
        jy = {a: [exact.ulp_step(y, a) if a else y for y in ys] for a in J}
        for a, b in combos:
            for x in jx[a]:
                for y in jy[b]:
                    pts.append((x, y))
        # interiors (including holes of the bounding box) and just-outside-slack points
        for i in range(self.nx):
            for j in range(self.ny):
                x, y = xs[i + 1], ys[j + 1]
                pts.append((x + self.fdh / 2, y + self.fdh / 2))
                pts.append((x + self.fdh * 0.999, y + self.fdh * 0.001))
        for k, x in enumerate(xs[1:]):
            s = exact.slack(x, k + 1, self.ex if len(self.ex) > 1 else [self.ex[0], self.ex[0] + self.fdh])
            pts.append((x - 3 * s, ys[1] + self.fdh / 2))
            pts.append((x - 1000 * s, ys[1] + self.fdh / 2))
        for k, y in enumerate(ys[1:]):
            s = exact.slack(y, k + 1, self.ey if len(self.ey) > 1 else [self.ey[0], self.ey[0] + self.fdh])
            pts.append((xs[1] + self.fdh / 2, y - 3 * s))
            pts.append((xs[1] + self.fdh / 2, y - 1000 * s))
        far = [(xs[0] - 10, ys[1]), (xs[-1] + 10, ys[1]), (xs[1], ys[0] - 10), (xs[1], ys[-1] + 10), (0.0, 0.0), (-179.999, -89.999), (179.999, 89.999)]
        pts += far
        pts += list(rng_extra)
        return pts
