"""Shared generator / builders / oracles for gridded-forecast evaluations (C05, C06, C07, C08, C16, C18, C20)."""
import datetime as D
import math
from fractions import Fraction

import numpy
from hypothesis import strategies as st

from pbt import exact, lattice

T0 = D.datetime(2010, 1, 1)
T1 = D.datetime(2011, 1, 1)


# ------------------------------------------------------------------ generation
def rate_value():
    """log-uniform 1e-12..1e3"""
    return st.floats(-12, 3).map(lambda e: float("%.6g" % (10.0 ** e)))


@st.composite
def rate_arrays(draw, n, zero_frac=(0, 0.3), lo=-12, hi=3, dyadic=False, distinct=False):
    if dyadic:
        # multiples of 2^-6 whose sum is a power of two: cumulative sums and normalisation are exact in binary
        vals = [draw(st.integers(0, 12)) for _ in range(n)]
        if sum(vals) == 0:
            vals[draw(st.integers(0, n - 1))] = 1
        s = sum(vals)
        p = 1
        while p < s:
            p *= 2
        # pad the largest entry so the total is a power of two
        vals[max(range(n), key=lambda i: vals[i])] += p - s
        return [v / 64.0 for v in vals]
    zf = draw(st.sampled_from([0.0, 0.0, 0.1, 0.3]))
    out = []
    for i in range(n):
        if draw(st.floats(0, 1)) < zf:
            out.append(0.0)
        else:
            e = draw(st.floats(lo, hi))
            out.append(float("%.6g" % (10.0 ** e)))
    if not any(out):
        out[draw(st.integers(0, n - 1))] = 1.0
    if distinct:
        seen = set()
        for i, v in enumerate(out):
            while v != 0 and v in seen:
                v = float("%.6g" % (v * 1.0137))
            seen.add(v)
            out[i] = v
    return out


@st.composite
def setups(draw, max_cells=60, max_mags=6, max_events=300, lo=-12, hi=3, holes=True, distinct=False):
    """region + magnitude grid + rates + observed (cell, bin) pairs"""
    rc = draw(lattice.lattices(max_n=8, flags=False))
    rc["dh_mode"] = "decimal"
    rc["origin_mode"] = "clean"
    rc["cells"] = rc["cells"][:max_cells]
    nc = len(rc["cells"])
    nm = draw(st.integers(1, max_mags))
    mc = {"start": draw(st.sampled_from(["4.95", "5.95", "2.5", "3", "4.0"])), "step": draw(st.sampled_from(["0.1", "0.2", "0.5", "1"])), "n": nm}
    rates = draw(rate_arrays(nc * nm, lo=lo, hi=hi, distinct=distinct))
    rate_dtype = None
    if not distinct and hi >= 1 and draw(st.integers(0, 9)) == 0:
        # whole expected counts held in an integer array (a legitimate ndarray; arithmetic on it must not stay integer)
        rates = [float(draw(st.integers(1, 9))) if r > 0 else 0.0 for r in rates]
        rate_dtype = "int"
    nobs = draw(st.one_of(st.integers(0, 4), st.integers(0, max_events)))
    pool = draw(st.lists(st.tuples(st.integers(0, nc - 1), st.integers(0, nm - 1)), min_size=1, max_size=max(1, min(12, nc * nm))))
    obs = [list(draw(st.sampled_from(pool))) for _ in range(nobs)]
    return {"region": rc, "mags": mc, "rates": rates, "obs": obs, "layout": draw(st.sampled_from(["C", "C", "F", "view"])),
            "prehistory": draw(st.sampled_from([0, 0, 1, 2, 3, 4, 4, 5, 6, 7])), **({"rate_dtype": rate_dtype} if rate_dtype else {})}


# ------------------------------------------------------------------ builders
class Setup:
    def __init__(self, case, name="f"):
        self.case = case
        self.L = lattice.Lattice(case["region"])
        self.nc = len(self.L.cells)
        self.edges = exact.decimal_grid(case["mags"]["start"], case["mags"]["step"], case["mags"]["n"])
        self.nm = len(self.edges)
        self.hm = float(case["mags"]["step"])
        self.rates = numpy.array(case["rates"], dtype=float).reshape(self.nc, self.nm)
        self.obs = [tuple(o) for o in case["obs"]]
        self.name = name

    def region(self):
        return self.L.build("from_origins", magnitudes=numpy.array(self.edges))

    def forecast(self, region=None, rates=None, name=None):
        from csep.core.forecasts import GriddedForecast
        region = region if region is not None else self.region()
        data = numpy.array(self.rates if rates is None else rates, dtype=float)
        if self.case.get("rate_dtype") == "int" and numpy.all(data == numpy.floor(data)):
            data = data.astype(numpy.int64)
        elif self.case.get("rate_dtype") == "float32" and numpy.array_equal(data.astype(numpy.float32).astype(float), data):
            data = data.astype(numpy.float32)      # only when every rate is a float32 number: same values, single-precision storage
        # same values, different memory layout: Fortran order, or a strided view into a larger array
        layout = self.case.get("layout", "C")
        if layout == "F":
            data = numpy.asfortranarray(data)
        elif layout == "view":
            big = numpy.full((2 * data.shape[0], 2 * data.shape[1]), 123.456)
            big[::2, ::2] = data
            data = big[::2, ::2]
        f = GriddedForecast(start_time=T0, end_time=T1, data=data, region=region, magnitudes=numpy.array(self.edges), name=name or self.name)
        if self.case.get("prehistory", 0) & 1:
            self.touch_forecast(f)
        if self.case.get("prehistory", 0) & 4:
            self.rejected_requests(f, region)
        return f

    def rejected_requests(self, f, region):
        """requests the library documents as REJECTED (a point outside the region, a magnitude below the grid, a catalog with an
        event outside the region), made before the object is used.  Their outcome is not judged here; the legitimate requests
        that follow must be answered as if these had never been made."""
        from csep.core.catalogs import CSEPCatalog
        far_lon, far_lat = float(self.L.ex[0]) - 7.25, float(self.L.ey[0]) - 3.75
        low = self.edges[0] - 1.0
        mid = self.edges[0] + self.hm / 2
        inside = self.event(0, 0, 0)
        outside = ("out", 1262304000000, far_lat, far_lon, 10.0, mid)
        for g in (lambda: f.get_rates([far_lon], [far_lat], [mid]),
                  lambda: f.get_rates([inside[3]], [inside[2]], [low]),
                  lambda: f.get_magnitude_index(numpy.array([mid, low])),
                  lambda: region.get_index_of([inside[3], far_lon], [inside[2], far_lat]),
                  lambda: f.target_event_rates(CSEPCatalog(data=[inside, outside, inside], region=region)),
                  lambda: f.target_event_rates(CSEPCatalog(data=[inside, outside], region=region), scale=True),
                  lambda: f.target_event_rates(CSEPCatalog(data=[inside, ("low",) + inside[1:5] + (low,)], region=region), scale=True),
                  lambda: CSEPCatalog(data=[inside, outside], region=region).spatial_magnitude_counts(),
                  lambda: CSEPCatalog(data=[inside, outside], region=region).spatial_magnitude_counts(mag_bins=numpy.array([e + 0.4 * self.hm for e in self.edges])),
                  lambda: CSEPCatalog(data=[inside, ("low",) + inside[1:5] + (low,)], region=region).spatial_magnitude_counts(mag_bins=numpy.array([e + 0.4 * self.hm for e in self.edges])),
                  lambda: CSEPCatalog(data=[("low",) + inside[1:5] + (low,)], region=region).magnitude_counts(mag_bins=numpy.array([e - 0.3 * self.hm for e in self.edges])),
                  lambda: CSEPCatalog(data=[outside, inside], region=region).spatial_counts(),
                  lambda: CSEPCatalog(data=[outside, inside], region=region).spatial_event_probability()) + self.early_exits(f, region):
            try:
                g()
            except Exception:  # noqa: BLE001
                pass

    @staticmethod
    def early_exits(f, region):
        """evaluations of the forecast against an EMPTY observation (early-exit paths: nothing to place, nothing to normalise by)"""
        from csep.core.catalogs import CSEPCatalog
        from csep.core import poisson_evaluations as P, binomial_evaluations as B
        empty = CSEPCatalog(data=[], region=region, name="empty")
        return (lambda: P.number_test(f, empty),
                lambda: P.conditional_likelihood_test(f, empty, num_simulations=1, seed=3),
                lambda: P.spatial_test(f, empty, num_simulations=1, seed=3),
                lambda: P.magnitude_test(f, empty, num_simulations=1, seed=3),
                lambda: B.binary_spatial_test(f, empty, num_simulations=1, seed=3),
                lambda: f.target_event_rates(empty, scale=True))

    @staticmethod
    def touch_forecast(f):
        """a history that nets to the identity: scale(2), every observer read, scale(1).  Scaling is
        absolute (C11), so the object must be indistinguishable from a new one - anything remembered from the scaled state is
        not.  Failures here are not judged (the property checks that follow see the consequences)."""
        def observers():
            for g in (lambda: f.sum(), lambda: f.event_count, lambda: f.spatial_counts(), lambda: f.magnitude_counts(),
                      lambda: f.spatial_counts(cartesian=True), lambda: numpy.asarray(f.data).shape):
                try:
                    g()
                except Exception:  # noqa: BLE001
                    pass
        try:
            f.scale(2.0)
            observers()         # first reads happen in the scaled state
            f.scale(1)
        except Exception:  # noqa: BLE001
            pass

    def event(self, i, k, m):
        ci, cj = self.L.cells[k]
        lon = self.L._coord(self.L.lon0, ci) + self.L.fdh / 2
        lat = self.L._coord(self.L.lat0, cj) + self.L.fdh / 2
        # magnitude: mid-bin; every fourth event exactly on the bin's lower edge; in the (open) top bin every fourth event far
        # above the last edge
        mag = self.edges[m] + self.hm / 2
        if i % 4 == 3:
            mag = self.edges[m]
        elif i % 4 == 1 and m == self.nm - 1:
            mag = self.edges[m] + 3.5 * self.hm
        return ("ev%d" % i, 1262304000000 + 1000 * i, lat, lon, 10.0, mag)

    def catalog(self, region, obs=None, name="obs"):
        from csep.core.catalogs import CSEPCatalog
        obs = self.obs if obs is None else obs
        pre = self.case.get("prehistory", 0)
        first_region = region
        if pre & 2 and region is not None and len(self.L.cells) >= 2:
            # the catalog object starts its life on ANOTHER region object (same cells in reverse order), is read there, and is then
            # re-bound to the region of the evaluation: whatever it remembered about cells belongs to the old region
            try:
                Lp = lattice.Lattice(dict(self.case["region"], cells=list(reversed(self.case["region"]["cells"]))))
                first_region = Lp.build("from_origins", magnitudes=numpy.array(self.edges))
            except Exception:  # noqa: BLE001
                first_region = region
        cat = CSEPCatalog(data=[self.event(i, k, m) for i, (k, m) in enumerate(obs)], region=first_region, name=name)
        if pre & 2:
            # observers read once before the catalog is used (nothing may be remembered in a way that changes later answers)
            for g in (lambda: cat.event_count, lambda: cat.get_magnitudes(), lambda: cat.spatial_counts(), lambda: cat.magnitude_counts(),
                      lambda: cat.spatial_magnitude_counts(), lambda: cat.get_mag_idx(), lambda: cat.get_spatial_idx(), lambda: cat.spatial_event_probability()):
                try:
                    g()
                except Exception:  # noqa: BLE001
                    pass
            if first_region is not region:
                cat.region = region
        if pre & 4 and region is not None and len(obs):
            # the catalog object is first handed to a forecast on ANOTHER region (one far-away cell, another magnitude grid), which
            # refuses it - every event lies outside that region.  Not judged; the catalog must be none the worse for it.
            try:
                from csep.core.forecasts import GriddedForecast
                from csep.core.regions import CartesianGrid2D
                far = CartesianGrid2D.from_origins(numpy.array([[float(self.L.ex[0]) - 40.0, float(self.L.ey[0]) * 0.25]]), dh=self.L.fdh,
                                                   magnitudes=numpy.array([e + 0.4 * self.hm for e in self.edges]))
                ff = GriddedForecast(start_time=T0, end_time=T1, data=numpy.ones((1, self.nm)), region=far, magnitudes=far.magnitudes, name="far")
            except Exception:  # noqa: BLE001
                return cat
            for g in (lambda: ff.target_event_rates(cat), lambda: ff.target_event_rates(cat, scale=True),
                      lambda: ff.get_rates(cat.get_longitudes(), cat.get_latitudes(), cat.get_magnitudes())):
                try:
                    g()
                except Exception:  # noqa: BLE001
                    pass
        return cat

    def counts(self, obs=None):
        obs = self.obs if obs is None else obs
        w = numpy.zeros((self.nc, self.nm))
        for k, m in obs:
            w[k, m] += 1
        return w


# ------------------------------------------------------------------ oracles
def poisson_ll(rates, counts):
    """sum_b [w ln(lam) - lam - lnGamma(w+1)], 0*ln0 = 0, -inf iff some w>0 has lam=0. Returns (value, abs_terms)."""
    terms = []
    for lam, w in zip(rates, counts):
        lam = float(lam)
        w = float(w)
        if w > 0:
            if lam <= 0:
                return -math.inf, math.inf
            terms.append(w * math.log(lam))
            terms.append(-math.lgamma(w + 1))
        terms.append(-lam)
    return math.fsum(terms), math.fsum(abs(t) for t in terms)


def binary_ll(rates, counts):
    """sum_active ln(1-exp(-lam)) + sum_inactive(-lam). Returns (value, tolerance)."""
    terms, tol = [], 0.0
    for lam, w in zip(rates, counts):
        lam = float(lam)
        if w > 0:
            if lam <= 0:
                return -math.inf, math.inf
            terms.append(math.log(-math.expm1(-lam)))
            tol += 4 * exact.EPS64 / min(lam, 1.0)  # naive log(1-exp(-lam)) has error ~ eps/lam
        else:
            terms.append(-lam)
    v = math.fsum(terms)
    return v, tol + 1e-12 * math.fsum(abs(t) for t in terms) + 1e-300


def brier(rates, counts):
    n = len(rates)
    terms = [(-math.expm1(-float(lam)) - (1.0 if w > 0 else 0.0)) ** 2 for lam, w in zip(rates, counts)]
    return -2.0 * math.fsum(terms) / n


def cdf_bounds(weights):
    """exact cumulative boundaries F_0=0 < ... F_n=1 of a non-negative weight list"""
    fr = [Fraction(float(w)) for w in weights]
    tot = sum(fr)
    acc = Fraction(0)
    out = [Fraction(0)]
    for f in fr:
        acc += f
        out.append(acc / tot)
    return out


def bin_of(F, u):
    """unique k with F[k] <= u < F[k+1] (never a zero-width bin)"""
    import bisect
    k = bisect.bisect_right(F, Fraction(u)) - 1
    return min(k, len(F) - 2)


def draw_in_bin(F, k, t):
    """a double inside bin k at relative position t in (0,1); None if the bin is too narrow to hit safely"""
    a, b = F[k], F[k + 1]
    if b - a <= 0:
        return None
    u = float(a + (b - a) * Fraction(t))
    # safely inside: at least 1e-9 of the width away from both boundaries, and farther than the library's float cumulative sum can be
    # from the exact one (sequential summation of n normalised weights: n ulps of 1 at worst, plus 4 ulps for the normalisation)
    w = float(b - a)
    margin = max(1e-9 * w, 4e-16 + 2.3e-16 * (len(F) - 1))
    if not (float(a) + margin < u < float(b) - margin) or not (0.0 <= u < 1.0):
        return None
    return u


def close(a, b, tol):
    if a == b:
        return True
    if math.isinf(a) or math.isinf(b) or math.isnan(a) or math.isnan(b):
        return False
    return abs(a - b) <= tol
