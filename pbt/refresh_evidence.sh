#!/bin/bash
# Re-runs every registered quick check against /repo (VERIF_SEED default 1), rewriting evidence/, then validates.
cd "$(dirname "$0")/.."
rc=0
for p in C01 C02 C03 C04 C05 C06 C07 C08 C09 C10 C11 C12 C13 C14 C15 C16 C17 C18 C19 C20; do
  out=$(/venv/bin/python pbt/run.py $p --tier quick 2>&1)
  r=$?
  echo "$out" | grep -v "^KNOWN-FINDING" | tail -1 | cut -c1-160
  if [ $r -ne 0 ]; then rc=1; echo "$out" | grep -E "VIOLATION|HARNESS" | cut -c1-300; fi
done
pbt/validate.sh
exit $rc
